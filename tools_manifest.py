#!/usr/bin/env python3
"""Regenerate MANIFEST.json from the table below (run: python3 tools_manifest.py)."""
import json

CHECKS = {
    "C01": dict(
        category="exploration",
        technique="Hypothesis grammar-generated UFL forms x random kernel inputs; differential test against an independent numpy reference evaluator with propagated error bounds",
        text="Generated-input search over cell-integral forms (arity 0-2, all cells, element pool incl. blocked/symmetric/mixed/enriched/Piola/real, affine/non-affine/manifold geometry, several quadrature rules per subdomain, quadrature elements, Bessel functions, user coordinate transforms, argument-dependent conditionals, two-mesh coefficients, Python int literals, atan2, constant-base powers, equal-order mixed spaces, integrands that are sums of independently generated terms, a layer of 17 hand-written model-problem templates with generated parameters, four scalar types), preceded by a replay of the committed corpus of earlier failing inputs. Each compiled kernel is compared entrywise with a reference that interprets the UFL-lowered integrand with basix tabulations. Sampling, not proof: holds on everything explored.",
        note="Trusted: UFL compute_form_data lowering, basix tabulate/make_quadrature, gcc. Tolerance = 8 x first-order running error bound incl. table tolerances max(option, 1e-6/1e-9).",
        design="5/C01",
    ),
}
CHECKS["C02"] = dict(
    category="exploration",
    technique="Hypothesis grammar-generated facet/vertex forms x all local entity indices x random inputs; differential test against the reference evaluator using the documented macro layout",
    text="Generated ds/dS/dP forms on all cell types (prisms with both facet types), entity-dependent integrands, unrelated data/geometry on the two cells of an interior facet; every local entity index (sampled pairs beyond 12) is passed to the kernel and compared with the reference evaluated on that sub-entity. Sampling, not proof.",
    note="Trusted: UFL restriction propagation/facet scaling/normals, basix reference topology/geometry. Permutation codes fixed to (0,0) (C03 covers the rest).",
    design="5/C02",
)
CHECKS["C16"] = dict(
    category="exploration",
    technique="exhaustive enumeration of depth-2 (parent, child, position) triples + Hypothesis random LNodes trees; round-trip oracle format -> independent parser (pycparser / Python ast) -> normal form, plus value equality",
    text="Every well-typed parent/child/operand-position combination of the AST is formatted by the C formatter (four scalar types for expressions) and the numba formatter and re-parsed by an independent grammar; random deeper expression and statement trees (literals near 1, subnormal, negative, complex; MultiIndex operands; nested loops, sections, array declarations) extend this. The depth-2 space is exhausted; deeper trees are sampled.",
    note="Trusted: pycparser C grammar, CPython ast. Math function names are judged against the C99 <math.h>/<complex.h> and numpy names written in the harness (every function x operand type class x scalar type enumerated). INT/INT division and ill-typed trees are outside the domain.",
    design="5/C16",
)
CHECKS["C17"] = dict(
    category="exploration",
    technique="exhaustive operand-kind pairs x Hypothesis values for the operator overloads (value oracle); differential execution of FFCx's kernel AST under identity/single/all optimiser passes in a bounds-checking LNodes interpreter, plus compiled optimised vs unoptimised kernels",
    text="All ordered pairs of 26 operand kinds under + - * / (and reflected variants with Python numbers, unary minus, float_product, MultiIndex.global_index, create_nested_for_loops) are built through the overloads and their value compared with the plain operation. Kernel bodies of generated forms are produced with the optimiser entry point swapped and executed on identical inputs; any difference in A or a use-before-definition is a violation. Kind pairs are exhausted; values and bodies are sampled.",
    note="Trusted: the harness's LNodes interpreter (C semantics of operators), gcc. INT/INT division and division by zero-valued operands excluded.",
    design="5/C17",
)
CHECKS["C11"] = dict(
    category="exploration",
    technique="Hypothesis-generated monomial functionals x degree x scheme x rational affine geometry; oracles: exact rational integration and the harness's own per-integral quadrature sums (basix rules)",
    text="Generated functionals with one or several (degree, scheme) rules in a subdomain, negative controls above the rule's degree, vertex scheme, quadrature elements (default and custom points/weights; also next to integrals with their own metadata in one subdomain) metadata-free polynomial products, repeated integrands, and exterior/interior-facet functionals with per-integral rules; the kernel value must equal the sum of each integral's own rule and the exact rational integral where the rule is exact. Degrees up to 30 and all schemes are sampled, not exhausted.",
    note="Trusted: basix.make_quadrature as the definition of a rule; rational arithmetic of the harness. Table tolerances set to 1e-14 for sharpness.",
    design="5/C11",
)
CHECKS["C06"] = dict(
    category="exploration",
    technique="Hypothesis-generated multi-form modules with mixed integral types and rich subdomain ids; dispatch-model oracle (structural invariants + per-(type,id) differential against the reference evaluator + metadata recomputed from UFL/basix)",
    text="Modules of 1-3 generated forms (cell/exterior/interior facet/vertex integrals; int, tuple and everywhere ids; repeated ids with different rules; prisms) are compiled; the descriptor's offsets/ids/array lengths are checked, the listed (type,id) set must equal the declared one, and the kernels listed under each (type,id) applied in sequence must equal the reference sum of the integrands declared for that id. A second family compiles generated same-space bilinear forms with part='diagonal' and recomputes the descriptor of the resulting rank-1 object (one argument hash, then the coefficients). Sampling over forms; every declared (type,id) of each sampled form is checked.",
    note="Trusted: UFL integral_data grouping as the meaning of 'declared for an id', basix hashes, the reference evaluator (see C01).",
    design="5/C06",
)
CHECKS["C05"] = dict(
    category="exploration",
    technique="Hypothesis-generated forms with vanishing/partially used coefficients; assembler-model packing differential against the reference evaluator + NaN poisoning of slots flagged disabled (bitwise metamorphic relation)",
    text="Generated forms (2-5 coefficients, 1-3 constants, shuffled declaration order, Gateaux derivatives that eliminate coefficients, several integrals with different coefficient subsets, interior facets) are packed exactly as an assembler would from the compiled descriptor; the kernel must equal the reference, and overwriting every slot whose enabled_coefficients flag is false with NaN must not change a single byte of A. Sampling over forms and inputs.",
    note="Trusted: UFL reduced coefficients / original positions; reference evaluator (see C01).",
    design="5/C05",
)
CHECKS["C04"] = dict(
    category="exploration",
    technique="Hypothesis-generated UFL expressions x point sets x all local facets x all permutation codes; differential against the reference evaluator with descriptor-driven packing; convention-free existential oracle over facet symmetries for permutation codes",
    text="Generated expressions (value rank 0-3, argument rank 0/1, mixed/Piola/blocked elements, gradients of nonlinear scalars, constants removed by differentiation) are evaluated at generated cell or facet points; A[point][component][dof] must equal the reference value, descriptor fields must equal the spec, and for facet points every permutation code must correspond to a facet symmetry of the right parity, injectively. Sampling over expressions/points; all facets and codes of each sampled facet case are covered.",
    note="Trusted: the UFL algorithms FFCx itself requests for expressions (algebra lowering, derivatives, pull-backs, geometry lowering), basix.",
    design="5/C04",
)
CHECKS["C09"] = dict(
    category="exploration",
    technique="Hypothesis complex-aware grammar forms compiled for all four scalar types; differential against the reference evaluator per type (real and complex data) + pairwise metamorphic agreement at the narrower type's round-off",
    text="Each generated form (cell/exterior/interior facet and vertex integrals, conj/real/imag, complex literals, math functions, sesquilinear inner products; model-problem templates incl. complex-only ones); real-mode rejections of complex-only forms keep the complex kernels under test is compiled for float32, float64, complex64, complex128. On real data all four kernels must equal the reference for their type and agree pairwise within the narrower type's propagated bound; on complex data the complex kernels must equal the reference run in complex arithmetic on UFL's complex-mode lowering. Sampling over forms and data.",
    note="Trusted: UFL complex_mode lowering (sesquilinear convention), numpy complex arithmetic vs C99 complex functions on the branch-cut-free generated domain.",
    design="5/C09",
)
CHECKS["C12"] = dict(
    category="exploration",
    technique="Hypothesis-generated (spec, process history, PYTHONHASHSEED, language) tuples executed in fresh child interpreters; byte-equality oracle against the empty-history hash-seed-0 child",
    text="For generated forms/expressions the text returned by compile_ufl_objects is compared byte for byte between a fresh baseline process and processes that first create unrelated UFL objects, compile other generated specs (also with other options), compile the target itself first with other options (table tolerances, scalar type, part), compile the very same UFL objects (or objects sharing its spaces/coefficients) before the target, call get_options differently, build the target before or after that history, and run under other hash seeds; C and numba back ends. A recorded finding (two-mesh forms: the text depends on how many digits the global mesh counters have) is probed and reported as KNOWN-FINDING. Histories and seeds are sampled.",
    note="Trusted: process isolation of the child interpreters. Hash seeds sampled from a fixed set of 9 values.",
    design="5/C12",
)
CHECKS["C13"] = dict(
    category="exploration",
    technique="Hypothesis-generated pairs of JIT requests (same request under another history/seed, or a mutation) evaluated in fresh child interpreters without compiling; stability and collision oracles on module/object names vs normalised generated sources",
    text="Module and object names are computed with FFCx's own naming functions in separate processes. The same request must give identical names under any generated history/hash seed/object counters; a mutated request (literal, operator, metadata, degree, points perturbed down to 1e-13 also inside >1000-point arrays, shape, scalar type, option, compiler flags, debug flag, form order) whose generated source or options differ must get a different module name; names must be valid, distinct and defined by the code. A sweep family names one request and every applicable single mutation (options, scalar types, compiler flags added/reordered/dropped, debug, point perturbations/count/shape/order, metadata, degree, subdomain id, object order) in one child and compares all pairs. Requests are sampled.",
    note="Trusted: SHA-1 collision resistance; 'different kernels' decided on generated source text with hashes normalised.",
    design="5/C13",
)
CHECKS["C03"] = dict(
    category="exploration",
    technique="enumeration/sampling of local-numbering pairs of two cells sharing a facet x Hypothesis-generated dS forms; convention-free metamorphic oracle (coinciding permutation codes discovered through a probe kernel; invariance against the reference value of the base numbering)",
    text="For generated interior-facet functionals and linear forms on triangles, quadrilaterals, tetrahedra and hexahedra, all 36 triangle and 64 quadrilateral numbering pairs (tetrahedron/hexahedron pairs sampled in the quick tier, 576 tetrahedron pairs in the thorough tier) are fed to the kernel with physically identical data; a probe kernel identifies the permutation codes that make both sides' quadrature points coincide, at least one must exist, and for those codes the result must equal the base numbering's reference value. Kernels flagged needs_facet_permutations=false must not depend on the codes. Coefficients also live in lowest-order N1curl/N2curl/RT/BDM spaces (dofs by per-cell interpolation of a physical field of the space, self-tested). Forms are sampled.",
    note="Trusted: code 0 = identity (only convention used), reference evaluator for the base numbering, Lagrange/DG nodal sampling of polynomial fields, basix interpolation operators for the Piola-mapped coefficients.",
    design="5/C03",
)
CHECKS["C07"] = dict(
    category="exploration",
    technique="Hypothesis RuleBasedStateMachine over call histories of a generated kernel pool (bitwise history-independence, accumulation, input immutability, thread-pool batches) + clang ThreadSanitizer driver + nm scan for writable static storage",
    text="The pool holds generated forms, templates and forms compiled with sum_factorization / part='diagonal'. Call histories (repeats, interleavings, pre-fills zero/random/huge/previous result, concurrent batches from a thread pool on disjoint A) are generated as one shrinkable value; equal (kernel, inputs, A_before) must give bit-identical A_after anywhere in the history and on any thread, A_after - A_before must equal the zero-start result, inputs and guard zones must be untouched; a ThreadSanitizer build runs each kernel from 4 threads on shared inputs; the compiled object must contain no writable statics besides descriptors. Thread interleavings are not enumerated.",
    note="Trusted: cffi releases the GIL (checked at design time), TSan's happens-before analysis, nm symbol types.",
    design="5/C07",
)
CHECKS["C08"] = dict(
    category="exploration",
    technique="Hypothesis-generated kernels of all kinds run natively under clang ASan/UBSan with exact-extent heap buffers for every valid (entity, permutation) tuple + execution of FFCx's kernel AST in a bounds-checking LNodes interpreter",
    text="For generated forms (all integral types and cells, diagonal part, sum factorisation) and expressions the generated C is linked with a generated driver whose buffers have exactly the extents the form implies (NULL entity/permutation pointers for cell kernels) and run under AddressSanitizer+UBSan for all entity indices and permutation codes; small forms are additionally interpreted at AST level with a bounds check on every array access of every loop iteration, which also covers the kernel's own tables. Forms are sampled; entity/permutation tuples of each sampled kernel are exhausted in the native run.",
    note="Trusted: clang sanitizers; extents computed from UFL/basix by the harness.",
    design="5/C08",
)
CHECKS["C10"] = dict(
    category="exploration",
    technique="four Hypothesis-generated metamorphic families: sum_factorization on/off over tensor-product elements, part='diagonal' (JIT) vs diagonal of the full tensor, table tolerances vs reference, inapplicable options vs bit-identical tensors",
    text="Each family compiles one generated form twice and compares the kernels on identical inputs (and with the reference evaluator where the relation is equality within tolerance). Families: TP quadrilateral/hexahedron cell forms with several rules, coefficients and non-TP sibling integrals (also after a warm-up compile of another form in the same process); bilinear forms with identical (blocked/mixed) argument spaces on all integral types; forms under table_rtol/atol in {1e-3..1e-14}; options that do not concern the form. A recorded finding (sum_factorization raising on cells without tensor rules) is reported as KNOWN-FINDING and excluded from further search. Sampling.",
    note="Trusted: reference evaluator (C01), jit.compile_forms' own block extraction for the diagonal part.",
    design="5/C10",
)
CHECKS["C18"] = dict(
    category="exploration",
    technique="Hypothesis-generated forms/expressions generated with language C and numba; differential execution (numba module executed in plain Python under an exact-size carray shim, and a sample compiled by the real numba.cfunc, vs compiled C kernel) and descriptor comparison",
    text="For generated forms (all integral types, several ids, math functions, conditionals, min/max/atan2, mixed/blocked elements) and expressions the numba module must be valid Python, import, and its kernels run in plain Python must reproduce the C kernel's tensor on the same inputs; all descriptor metadata must equal the C descriptor. Half of the forms are generated twice in one process - default options, then sum_factorization / part='diagonal' / table tolerances (either order for diagonal) - and C and numba are compared for each option set. A sample (1 form per shard quick, 4 thorough) is additionally compiled by numba itself (cfunc, nopython; 150 s budget) and called through its C pointer; Bessel kernels run with scipy from .deps. Sampling.",
    note="Trusted: the C kernels (judged by C01/C02/C04 against the independent evaluator), CPython as the reference Python semantics.",
    design="5/C18",
)
CHECKS["C14"] = dict(
    category="exploration",
    technique="harness-owned deterministic scheduler over the children's file-system/sleep/compiler/dlopen sync points; Hypothesis-generated (thorough: enumerated) interleavings; invariants over the recorded history",
    text="2-3 real processes run jit.compile_forms on one fresh cache directory; every primitive touching the cache blocks until the controller grants it, so the interleaving is chosen by a generated cyclic schedule (the thorough tier also enumerates all two-process interleavings by prefix flipping). The history must show exactly one compiler spawn, no load before link + ready marker, no exception, correct kernels everywhere, and a late request that reuses the cache. Mixed cases request different forms/options on one cache concurrently - full and diagonal part, and the same form for float32/float64/complex64/complex128 - (one build per distinct module, every process must get a module with its own kernel pointer). Half of the three-process cases contain an impatient request whose timeout (1-3 polls) expires while the builder holds the lock: it may raise TimeoutError, everything else must still hold. Interleavings are at sync-point granularity.",
    note="Trusted: the wrappers see every cache access FFCx/cffi make (observed list in DESIGN.md 3.8); steps inside gcc/ld/the loader are atomic for the model.",
    design="5/C14",
)
CHECKS["C15"] = dict(
    category="fault_enumeration",
    technique="fault injection at every builder sync point (SIGKILL), transient compiler/linker failure via CC/LDSHARED wrappers, injected code-generation exceptions, each followed by generated follow-up request sequences; oracles on cache state, process-global state and follow-up outcomes",
    text="Every sync point of the building process is a crash point and is killed there once per run (enumerated), plus waiter kills and Hypothesis-generated combinations of crash point x 1-3 sequential or concurrent follow-up requests; code generation failures (injected exceptions of seven Exception types; FFCx's own rejection of a form; IR visualisation without pygraphviz, which fails after the lock is taken) and C compile/link failures are injected transiently. After a raised failure the lock must be gone, .failed present, logger handlers and stdout untouched and the next request must rebuild and the requests after that rebuild must be served from the cache; after a kill every later request must return a correct kernel or raise TimeoutError.",
    note="Trusted: crash points = harness sync points; kills inside gcc/ld are represented by the points around their spawn.",
    design="5/C15",
)
CHECKS["C19"] = dict(
    category="exploration",
    technique="outcome classification (built / rejected before the compiler / compiler error) of Hypothesis-generated supported and deliberately unsupported inputs, differential check of built kernels, and exhaustive enumeration of quadrature-rule id collisions",
    text="Generated supported forms/expressions and 'wild' inputs (cell_avg, Bessel functions, raw geometry, prism dS, DG vertex integrals, non-TP sum factorisation, ridge integrals, ...) are classified; a C compiler error or a built kernel that disagrees with the reference is a violation, a Python exception is an allowed rejection. All quadrature rules (6 cells x degree 0-30 x 3 schemes x 2 polysets + vertex) are enumerated and every pair sharing FFCx's rule id is compiled as a two-rule form (exhaustive over rule pairs); one pair of distinct rules per (cell, number of points) class is compiled into one kernel; one integral with two quadrature elements must be rejected unless their rules agree; two-mesh multi-rule cell forms are part of the supported inputs; a quarter of the inputs is compiled for complex128; a fixed strict-C17 probe reports the recorded Bessel finding.",
    note="Trusted: gcc as the C17 compiler; 'supported' is never inferred - only compiler errors and silent miscomputation count.",
    design="5/C19",
)
CHECKS["C20"] = dict(
    category="exploration",
    technique="Hypothesis-generated UFL files x option sources x output-layout flags run through `python -m ffcx` in fresh children; oracles: stand-alone compile, header/object symbol agreement, alias resolution, differential against the in-process build with the harness-merged effective options",
    text="Generated files with several named forms/expressions and awkward file stems are compiled by the command-line tool under generated combinations of CLI flags, $PWD and $XDG option files and -o/-n/-d; the outputs must exist, compile stand-alone, define everything the header declares, expose working aliases, carry the effective options (own merge CLI > PWD > XDG > defaults) in banner, kernel pointers and table names, and give bit-identical tensors to the in-process build with those options. Sampling.",
    note="Trusted: gcc, nm, the harness's option merge as the specification of precedence.",
    design="5/C20",
)
PENDING = {}

def main():
    ids = [f"C{i:02d}" for i in range(1, 21)]
    checks = []
    for pid in ids:
        if pid not in CHECKS:
            continue
        c = CHECKS[pid]
        checks.append({
            "property_id": pid,
            "quick_cmd": f"/venv/bin/python -m vf check {pid} --tier quick",
            "thorough_cmd": f"/venv/bin/python -m vf check {pid} --tier thorough",
            "evidence_file": f"evidence/{pid}.json",
            "replay_cmd_template": "/venv/bin/python -m vf replay {path}",
            "engine": "vf",
            "level_claimed": {"category": c["category"], "text": c["text"], "design_ref": "DESIGN.md section " + c["design"]},
            "level_note": c["note"],
            "technique": c["technique"],
        })
    na = [{"property_id": p, "reason": PENDING.get(p, "no check registered yet: machinery for this property is still being built (see DESIGN.md section 5 for the planned generated-input check)")} for p in ids if p not in CHECKS]
    m = {
        "version": 1,
        "setup_cmd": "/venv/bin/python -m pip install --no-index --find-links /opt/veriftools/wheels hypothesis >/dev/null 2>&1; /venv/bin/python -m pip install --no-index --find-links /opt/veriftools/wheels --target .deps atheris >/dev/null 2>&1 || echo 'atheris not installed: thorough C16 runs without the coverage-guided campaign'; /venv/bin/python -m pip install --no-index --no-deps --find-links /opt/veriftools/wheels --target .deps scipy >/dev/null 2>&1 || echo 'scipy not installed: C18 excludes Bessel forms from the numba comparison'; /venv/bin/python -c 'import hypothesis, ffcx, basix, ufl, cffi, pycparser' && /venv/bin/python -m compileall -q vf",
        "hooks": {
            "guard": "FFCX_VERIF",
            "enable": "no source hooks: all instrumentation is applied harness-side (monkeypatching in child processes); checks import ffcx from the editable install of /repo",
            "baseline_off_cmd": "cd /repo && /venv/bin/python -m pytest -ra -q -p no:cacheprovider --timeout=900 --continue-on-collection-errors",
            "source_commits": [],
            "add_only": True,
        },
        "engines": [
            {"name": "vf", "path": "vf/", "serves_properties": [c["property_id"] for c in checks],
             "kind_free_text": "Python package: Hypothesis strategies over JSON specs of UFL forms/expressions/LNodes trees/histories, numpy reference evaluator, kernel runner (gcc+cffi), process harness"},
        ],
        "checks": checks,
        "not_applicable": na,
        "notes": "Exit codes: 0 held / 1 VIOLATION line(s) / 2 harness error or inconclusive. VERIF_SEED and VERIF_TIER honoured. known_findings.json lists recorded genuine defects and fixed ones.",
    }
    json.dump(m, open("MANIFEST.json", "w"), indent=1)
    print("wrote MANIFEST.json with", len(checks), "checks;", len(na), "not yet claimed")

if __name__ == "__main__":
    main()
