"""Differential evaluation of one form spec: FFCx kernel(s) vs reference evaluator.

Used by C01/C02/C05/C06/C09/C10/C11 with different generators and option sets.  The *assembler model*
(DESIGN.md 3.3) is followed: kernel arguments are packed only from the compiled descriptor and the
original form's element dimensions.
"""

from __future__ import annotations

import traceback

import basix
import numpy as np

from . import inputs, kernels, refeval, specs
from .common import spec_hash
from .hyp import Outcome
from .strategies import spec_classes, strip_meta

TOL_FACTOR = 8.0
ABS_FLOOR = 1e-300


def entity_count(cellname, itype):
    topo = basix.topology(refeval.CT[cellname])
    tdim = len(topo) - 1
    if itype == "cell":
        return 1
    if itype in ("exterior_facet", "interior_facet"):
        return len(topo[tdim - 1])
    if itype == "vertex":
        return len(topo[0])
    if itype == "ridge":
        return len(topo[tdim - 2])
    raise ValueError(itype)


def entity_celltype_tag(cellname, itype, entity):
    """ufcx `domain` tag (basix cell type value) of the integration entity."""
    topo = basix.topology(refeval.CT[cellname])
    tdim = len(topo) - 1
    if itype == "cell":
        return int(refeval.CT[cellname].value)
    dim = {"exterior_facet": tdim - 1, "interior_facet": tdim - 1, "vertex": 0, "ridge": tdim - 2}[itype]
    return int(refeval.sub_entity_type(cellname, dim, entity).value)


def compare(A, Aref, E, factor=TOL_FACTOR):
    """Return (ok, worst_ratio, index) for |A-Aref| <= factor*E entrywise."""
    A = np.asarray(A)
    Aref = np.asarray(Aref)
    if A.shape != Aref.shape:
        return False, float("inf"), None
    if not np.all(np.isfinite(A)):
        return False, float("inf"), tuple(int(i) for i in np.argwhere(~np.isfinite(A))[0]) if A.ndim else ()
    d = np.abs(A - Aref)
    bound = factor * E + ABS_FLOOR
    ratio = d / bound
    k = int(np.argmax(ratio)) if ratio.size else 0
    worst = float(ratio.ravel()[k]) if ratio.size else 0.0
    idx = tuple(int(i) for i in np.unravel_index(k, ratio.shape)) if ratio.size and ratio.ndim else ()
    return worst <= 1.0, worst, idx


class FormRunner:
    """Compile one spec once; evaluate kernels against the reference for chosen integrals/entities."""

    def __init__(self, spec, workdir, scalar_type="float64", options=None, cflags=("-O1",), name="m", built=None):
        self.spec = spec
        self.scalar_type = scalar_type
        self.options = dict(options or {})
        self.options["scalar_type"] = scalar_type
        self.built = built if built is not None else specs.build(strip_meta(spec))
        self.form = self.built.form
        self.module = None
        self.workdir = workdir
        self.cflags = cflags
        self.name = name
        self.complex = np.issubdtype(np.dtype(scalar_type), np.complexfloating)

    def is_zero_form(self):
        return self.form.empty() if hasattr(self.form, "empty") else False

    def compile(self):
        self.module = kernels.compile_module([self.form], self.options, workdir=self.workdir, name=self.name, cflags=self.cflags)
        self.cform = self.module.objects[0]
        self.desc = kernels.read_form_descriptor(self.module.ffi, self.cform)
        self.fd = refeval.compute_form_data(self.form, self.scalar_type)
        self.tol = refeval.Tol(self.scalar_type, self.options.get("table_rtol", 1e-6), self.options.get("table_atol", 1e-9))
        return self

    def attach(self, module, index):
        """Use an already compiled multi-form module; this runner is form number `index` in it."""
        self.module = module
        self.cform = module.objects[index]
        self.desc = kernels.read_form_descriptor(module.ffi, self.cform)
        self.fd = refeval.compute_form_data(self.form, self.scalar_type)
        self.tol = refeval.Tol(self.scalar_type, self.options.get("table_rtol", 1e-6), self.options.get("table_atol", 1e-9))
        return self

    def attach_jit(self, compiled_form, jit_module):
        """Use a form object returned by ffcx.codegeneration.jit.compile_forms."""
        class _M:
            pass

        m = _M()
        m.ffi = jit_module.ffi
        m.lib = jit_module.lib
        m.objects = [compiled_form]
        m.source = ""
        return self.attach(m, 0)

    def groups(self):
        """[(itype, id)] present in the compiled descriptor, in descriptor order."""
        out = []
        for t, itype in enumerate(kernels.ITYPES):
            lo, hi = self.desc["offsets"][t], self.desc["offsets"][t + 1]
            for i in range(lo, hi):
                k = (itype, self.desc["ids"][i])
                if k not in out:
                    out.append(k)
        return out

    def declared_groups(self):
        """[(itype, id)] declared by the user's form according to UFL (id -1 = everywhere)."""
        out = []
        for itd in self.fd.integral_data:
            sid = itd.subdomain_id
            ids = sid if isinstance(sid, tuple) else (sid,)
            for i in ids:
                k = (itd.integral_type, -1 if i == "otherwise" else int(i))
                if k not in out:
                    out.append(k)
        return out

    def coefficient_slots(self, width):
        """[(start, stop)] of each listed coefficient inside w, from descriptor + original element dimensions."""
        ocoefs = self.form.coefficients()
        out = []
        pos = 0
        for p in self.desc["original_coefficient_positions"]:
            n = ocoefs[p].ufl_function_space().ufl_element().dim * width
            out.append((pos, pos + n))
            pos += n
        return out

    def run_group(self, itype, sid, data: inputs.FormData, entity=(0, 0), perm=None, A0=None, poison=None, poison_disabled=False,
                  diagonal=False):
        """Apply the kernels listed under (itype, sid) one after another; returns CallResult-like."""
        width = 2 if itype == "interior_facet" else 1
        dims = [e.dim for e in self.fd.argument_elements]
        shape = tuple(width * d for d in dims)
        if diagonal and len(shape) == 2:
            shape = shape[:1]
        ocoefs = self.form.coefficients()
        w = inputs.pack_w(ocoefs, self.desc["original_coefficient_positions"], data, width)
        c = inputs.pack_c(self.form.constants(), data)
        x = inputs.pack_coordinates(data.x, width)
        if poison is not None:
            w = poison(w)
        idxs = kernels.integrals_of(self.desc, itype, sid)
        cellname = self.spec["cell"]
        tag = entity_celltype_tag(cellname, itype, entity[0])
        A = A0
        problems = []
        ncalled = 0
        for i in idxs:
            if self.desc["integrals"][i]["domain"] != tag:
                continue
            itg = self.cform.form_integrals[i]
            ent = None if itype == "cell" else list(entity[:width])
            pm = None
            if itype in ("interior_facet", "ridge"):
                # ridge kernels index their (possibly permuted) tables by quadrature_permutation[0] as well
                pm = list(perm) if perm is not None else [0, 0]
            elif perm is not None:
                pm = list(perm)
            wi = w
            if poison_disabled:
                wi = np.array(w, dtype=np.complex128 if self.complex else np.float64)
                for (a, b), en in zip(self.coefficient_slots(width), self.desc["integrals"][i]["enabled_coefficients"]):
                    if not en:
                        wi[a:b] = np.nan
            r = kernels.call_kernel(self.module.ffi, itg, self.scalar_type, shape, wi, c, x, entity=ent, perm=pm, A0=A)
            A = r.A
            problems += r.problems
            ncalled += 1
        return A, problems, ncalled, idxs

    def reference(self, itype, sid, data, entity=(0, 0), point_perm=None):
        usid = "otherwise" if sid == -1 else sid
        return refeval.form_reference(
            self.form, data.coef, data.const, data.x, itype, usid, entity=entity,
            scalar_type=self.scalar_type, tol=self.tol, point_perm=point_perm, form_data=self.fd,
        )


def nontrivial_c01(spec, fd=None):
    tags = set(spec.get("_tags", []))
    feats = set(spec.get("_features", []))
    has_fn = bool(spec["coefs"]) or bool(spec["args"])
    simple_tags = {"P", "DG"}
    interesting = (
        spec["cdeg"] > 1
        or spec["cell"] in ("quadrilateral", "hexahedron", "prism")
        or bool(tags - simple_tags)
        or len({(i["md"].get("quadrature_degree"), i["md"].get("quadrature_rule")) for i in spec["integrals"]}) > 1
        or spec["gdim"] > specs.TDIM[spec["cell"]]
        or any(f.startswith("L:") for f in feats)
    )
    return has_fn and interesting


def evaluate_form_spec(spec, workdir, itypes=("cell",), scalar_type="float64", options=None, n_inputs=2,
                       prop="C01", all_entities=False, nontrivial=nontrivial_c01, cflags=("-O1",), entity_picker=None,
                       extra_check=None):
    """Generic differential evaluation -> Outcome."""
    classes = spec_classes(spec)
    sclean = strip_meta(spec)
    h = spec_hash(sclean)
    try:
        fr = FormRunner(spec, workdir, scalar_type=scalar_type, options=options, name="m" + h, cflags=cflags)
    except Exception:
        return Outcome("generator-error", case_id=h, classes=classes + ["generator-error"], what=traceback.format_exc()[-1500:])
    if fr.is_zero_form():
        return Outcome("zero-form", case_id=h, classes=classes)
    try:
        fr.compile()
    except kernels.Rejected as e:
        return Outcome("rejected", case_id=h, classes=classes + ["rejected:" + type(e.exc).__name__], what=str(e), sample=None)
    except kernels.CompileError as e:
        return Outcome("cc-error", case_id=h, classes=classes, what=e.stderr[-500:])
    return evaluate_runner(fr, spec, itypes=itypes, n_inputs=n_inputs, prop=prop, all_entities=all_entities, nontrivial=nontrivial,
                           extra_check=extra_check)


def evaluate_runner(fr, spec, itypes=("cell",), n_inputs=2, prop="C01", all_entities=False, nontrivial=nontrivial_c01,
                    extra_check=None, classes=None):
    """Differential evaluation of a compiled FormRunner against the reference -> Outcome."""
    classes = list(classes) if classes is not None else spec_classes(spec)
    sclean = strip_meta(spec)
    h = spec_hash(sclean)
    scalar_type = fr.scalar_type
    options = {k: v for k, v in fr.options.items() if k != "scalar_type"}
    sample = {"spec": sclean, "ufl": specs.to_source(sclean).split("\n")[-2][:400]}
    replay_base = {"spec": sclean, "scalar_type": scalar_type, "options": options or {}, "ufl_source": specs.to_source(sclean)}
    cellname = spec["cell"]
    if extra_check is not None:
        msg = extra_check(fr)
        if msg:
            kind, what = msg
            return Outcome("violation", case_id=h, classes=classes, key=f"{prop}:{kind}:{h}", bucket=f"{prop}:{kind}:{cellname}", what=what,
                           replay=replay_base, sample=sample)
    declared = fr.declared_groups()
    checked = 0
    unstable = 0
    unsupported = 0
    for itype, sid in declared:
        if itype not in itypes:
            continue
        nent = entity_count(cellname, itype)
        for k in range(n_inputs):
            dseed = (int(spec.get("data_seed", 0)) + 7919 * k) & 0x7FFFFFFF
            data = inputs.FormData(fr.built, dseed, complex_=fr.complex)
            rng = inputs.rng_for(dseed, 55)
            if itype == "cell":
                ents = [(0, 0)]
            elif all_entities:
                ents = [(a, b) for a in range(nent) for b in (range(nent) if itype == "interior_facet" else [0])]
                if len(ents) > 12:
                    sel = rng.choice(len(ents), size=12, replace=False)
                    ents = [ents[i] for i in sorted(sel)]
            else:
                ents = [(int(rng.integers(nent)), int(rng.integers(nent)))]
            for ent in ents:
                try:
                    Aref, E = fr.reference(itype, sid, data, entity=ent)
                except refeval.Unstable:
                    unstable += 1
                    continue
                except refeval.Unsupported as e:
                    unsupported += 1
                    classes.append("ref-unsupported:" + str(e)[:40])
                    continue
                if Aref is None:
                    continue
                A0 = inputs.coefficient_values(inputs.rng_for(dseed, 91), int(np.prod(Aref.shape)) if Aref.ndim else 1, fr.complex).reshape(Aref.shape)
                A, problems, ncalled, idxs = fr.run_group(itype, sid, data, entity=ent, A0=A0)
                what = None
                kind = "mismatch"
                if ncalled == 0:
                    kind = "no-kernel"
                    what = f"no kernel registered under ({itype}, {sid}) for entity {ent} although the form declares one"
                elif problems:
                    kind = "guard"
                    what = f"kernel ({itype},{sid}) entity {ent}: " + "; ".join(problems)
                else:
                    # the kernel adds into the pre-filled A once per quadrature point: each += rounds at |A0|+|T|
                    nacc = refeval.LAST["nacc"]
                    ok, worst, idx = compare(np.asarray(A) - A0, Aref, E + nacc * fr.tol.u * (np.abs(A0) + np.abs(Aref)))
                    if not ok:
                        d = np.asarray(A) - A0
                        what = (f"kernel ({itype},{sid}) entity {ent} input#{k}: A{list(idx)} = {d[idx] if idx else d!r} but reference "
                                f"{Aref[idx] if idx else Aref!r} (error bound {TOL_FACTOR * (E[idx] if idx else E):.3e}, ratio {worst:.3g}); "
                                f"max|A-Aref| = {np.nanmax(np.abs(d - Aref)):.3e}, max|Aref| = {np.max(np.abs(Aref)):.3e}")
                if what:
                    bucket = f"{prop}:{kind}:{itype}:{cellname}"
                    rp = dict(replay_base, itype=itype, subdomain_id=sid, entity=list(ent), data_seed=dseed, input_index=k)
                    return Outcome("violation", case_id=h, classes=classes, key=f"{prop}:{h}", bucket=bucket, what=what, replay=rp, sample=sample)
                checked += 1
    if unstable:
        classes.append("inputs-redrawn-unstable")
    if checked == 0:
        return Outcome("inconclusive" if (unstable or unsupported) else "no-target-integral", case_id=h, classes=classes)
    return Outcome("ok", case_id=h, nontrivial=nontrivial(spec), classes=classes, sample=sample)
