"""Coverage-guided campaign for C16/C17 (thorough tier): atheris drives the Hypothesis strategies through fuzz_one_input.

Run as: PYTHONPATH=/verif/.deps:/verif python -m vf.fuzz_c16 -max_total_time=N -seed=S <corpus dir>
Writes VF_FUZZ_OUT (JSON: executions, violations, found[]) at exit points (atheris skips atexit handlers).
"""

import json
import os
import sys

import atheris

with atheris.instrument_imports(include=["ffcx.codegeneration.lnodes", "ffcx.codegeneration.C.formatter", "ffcx.codegeneration.numba.formatter"]):
    import ffcx.codegeneration.C.formatter  # noqa: F401
    import ffcx.codegeneration.lnodes  # noqa: F401
    import ffcx.codegeneration.numba.formatter  # noqa: F401

from hypothesis import given, settings  # noqa: E402
from hypothesis import strategies as st  # noqa: E402

from vf import lnstrategies  # noqa: E402
from vf.checks import c16  # noqa: E402

STATE = {"executions": 0, "violations": 0, "found": [], "buckets": set()}
OUT = os.environ.get("VF_FUZZ_OUT")


def flush():
    if OUT:
        with open(OUT, "w") as f:
            json.dump({"executions": STATE["executions"], "violations": STATE["violations"], "found": STATE["found"]}, f)


@settings(database=None, deadline=None)
@given(st.one_of(st.tuples(st.just("e"), lnstrategies.expression(5), st.integers(0, 2**31 - 1)), st.tuples(st.just("s"), lnstrategies.statements(2), st.just(0))))
def target(case):
    STATE["executions"] += 1
    kind, tree, seed = case
    o = c16.outcome_for_expr(tree, seed) if kind == "e" else c16.outcome_for_stmts(tree)
    if o.status == "violation" and o.bucket not in STATE["buckets"]:
        STATE["buckets"].add(o.bucket)
        STATE["violations"] += 1
        STATE["found"].append({"key": o.key, "bucket": o.bucket, "what": o.what, "replay": o.replay})
    if STATE["executions"] % 250 == 0:
        flush()


def one_input(data):
    target.hypothesis.fuzz_one_input(data)


if __name__ == "__main__":
    atheris.Setup(sys.argv, one_input)
    try:
        atheris.Fuzz()
    finally:
        flush()
