"""Obtain the code-generation AST (LNodes) of FFCx kernels and execute it with the bounds-checking Machine.

The AST is produced by FFCx itself (analysis -> IR -> IntegralGenerator/ExpressionGenerator); only the
*optimiser entry point* can be swapped (identity / single passes) for C17.
"""

from __future__ import annotations

import contextlib

import numpy as np

from . import lntree


@contextlib.contextmanager
def optimizer_mode(mode: str):
    """mode: "full" (FFCx as is) | "none" | "sections" | "sections+loops" | "licm-only"."""
    import ffcx.codegeneration.integral_generator as IG
    import ffcx.codegeneration.lnodes as L
    import ffcx.codegeneration.optimizer as O

    orig = IG.optimize

    def none(code, rule):
        return code

    def sections(code, rule):
        code = O.fuse_sections(code, "Coefficient")
        return O.fuse_sections(code, "Jacobian")

    def sections_loops(code, rule):
        code = sections(code, rule)
        for i, s in enumerate(code):
            if isinstance(s, L.Section) and L.Annotation.fuse in s.annotations:
                code[i] = O.fuse_loops(s)
        return code

    def licm_only(code, rule):
        code = list(code)
        for i, s in enumerate(code):
            if isinstance(s, L.Section) and L.Annotation.licm in s.annotations:
                code[i] = O.licm(s, rule)
        return code

    table = {"full": orig, "none": none, "sections": sections, "sections+loops": sections_loops, "licm-only": licm_only}
    IG.optimize = table[mode]
    try:
        yield
    finally:
        IG.optimize = orig


def compute_ir(objects, options, prefix="vf"):
    from ffcx.analysis import analyze_ufl_objects
    from ffcx.ir.representation import compute_ir as _compute_ir

    from .kernels import ffcx_options

    from .kernels import time_limit

    p = ffcx_options(options)
    with time_limit(150):  # time and memory budget of the symbolic phase (raises kernels.Timeout)
        analysis = analyze_ufl_objects(list(objects), p["scalar_type"])
        return _compute_ir(analysis, {}, prefix, p, False), p


def integral_asts(form, options=None, mode="full"):
    """[{name, itype, domain, tensor_shape, tree, ir}] for every kernel of the form."""
    from ffcx.codegeneration.backend import FFCXBackend
    from ffcx.codegeneration.integral_generator import IntegralGenerator

    ir, p = compute_ir([form], options)
    out = []
    with optimizer_mode(mode):
        for iir in ir.integrals:
            domains = []
            for dom, _rule in iir.expression.integrand.keys():
                if dom not in domains:
                    domains.append(dom)
            for dom in domains:
                backend = FFCXBackend(iir, p)
                ig = IntegralGenerator(iir, backend)
                parts = ig.generate(dom)
                out.append({
                    "name": iir.expression.name,
                    "itype": iir.expression.integral_type,
                    "domain": int(dom.value),
                    "tensor_shape": [int(s) for s in iir.expression.tensor_shape],
                    "needs_facet_permutations": bool(iir.expression.needs_facet_permutations),
                    "node": parts,
                    "ir": iir,
                })
    return out, ir


def expression_asts(expr_points, options=None):
    from ffcx.codegeneration.backend import FFCXBackend
    from ffcx.codegeneration.expression_generator import ExpressionGenerator

    ir, p = compute_ir([expr_points], options)
    out = []
    for eir in ir.expressions:
        backend = FFCXBackend(eir, p)
        eg = ExpressionGenerator(eir, backend)
        parts = eg.generate()
        out.append({"name": eir.expression.name, "node": parts, "ir": eir})
    return out, ir


def execute_kernel(tree, A_size, w, c, coords, entity=None, perm=None, complex_=False, A0=None):
    """Run a kernel AST (JSON tree) on numpy inputs.  Returns flat A.  Raises OutOfBounds/Undefined."""
    dt = np.complex128 if complex_ else np.float64
    A = np.zeros(A_size, dtype=dt) if A0 is None else np.array(A0, dtype=dt).ravel().copy()
    env = {
        "A": A,
        "w": np.asarray(w, dtype=dt).ravel(),
        "c": np.asarray(c, dtype=dt).ravel(),
        "coordinate_dofs": np.asarray(coords, dtype=np.float64).ravel(),
    }
    if entity is not None:
        env["entity_local_index"] = np.asarray(entity, dtype=np.int64).ravel()
    if perm is not None:
        env["quadrature_permutation"] = np.asarray(perm, dtype=np.int64).ravel()
    m = lntree.Machine(env, scalar_dtype=dt, readonly=("w", "c", "coordinate_dofs", "entity_local_index", "quadrature_permutation"))
    m.run(tree)
    return A, m
