"""C17  AST simplifications and optimiser passes preserve the computed values (DESIGN.md section 5, C17)."""

from __future__ import annotations

import copy
import itertools
import math
import operator
import traceback

import numpy as np
from hypothesis import strategies as st

from .. import astgen, formcheck, inputs, kernels, lnstrategies, lntree, specs, strategies
from ..common import Run, ShardResult, canon, run_shards, scratch, spec_hash, verif_seed
from ..common import thorough  # noqa: E402
from ..hyp import Outcome, drive

PROP = "C17"
RULE = (
    "(a) operator overloads: exhaustive enumeration of all ordered pairs of 26 operand kinds (literal 0/-0/1/-1/other/complex, "
    "int literals, REAL/SCALAR/INT symbols, Neg, Neg of literal, Sum, Product, Add, Sub, Mul, Div, ArrayAccess, MathFunction, "
    "Conditional) x {+,-,*,/} plus reflected operations with Python numbers, unary minus, float_product, MultiIndex.global_index "
    "and create_nested_for_loops, with literal/symbol values drawn by Hypothesis; oracle: value of the built tree == the same "
    "operation applied to the operand values (exact ==). (b) kernel bodies of grammar-generated forms: the AST generated with "
    "the optimiser replaced by identity / fuse_sections / +fuse_loops / licm-only / full is executed by a bounds-checking AST "
    "interpreter on the same random inputs and must give the same A (and no use-before-definition); the compiled optimised "
    "and unoptimised kernels must agree as well. Non-trivial: (a) a pair where a folding rule fired (built tree differs from the "
    "raw node); (b) a body that a pass changed; distinct by hash."
)

OPS = {"add": operator.add, "sub": operator.sub, "mul": operator.mul, "div": operator.truediv}
RAW = {"add": "Add", "sub": "Sub", "mul": "Mul", "div": "Div"}
PYNUMS = [0, 1, -1, 2, -3, 0.0, 1.0, -1.0, -0.0, 2.5, -0.75]


def _subst(kind_tree, vals):
    """Replace the fixed literal of the 'other' kinds by drawn values."""
    t = copy.deepcopy(kind_tree)
    return t


def operand_trees(vals):
    k = lnstrategies.operand_kinds()
    k = copy.deepcopy(k)
    k["Fpos"] = ["LitF", vals["fpos"]]
    k["Fneg"] = ["LitF", -vals["fneg"]]
    k["Fc"] = ["LitF", [vals["fpos"], -vals["fneg"]]]
    k["Ipos"] = ["LitI", vals["ipos"]]
    k["Ineg"] = ["LitI", -vals["ineg"]]
    k["NegLit"] = ["Neg", ["LitF", vals["fneg"]]]
    return k


def env_from(vals):
    env = {"a": vals["a"], "b": vals["b"], "s": vals["s"], "i": vals["i"], "j": vals["j"], "x0": 0.77,
           "w": lambda *idx: 0.5 + 0.25 * sum(idx)}
    return env


def is_int(v):
    return isinstance(v, (int, np.integer)) and not isinstance(v, bool)


def same_value(x, y):
    if isinstance(x, complex) or isinstance(y, complex):
        x, y = complex(x), complex(y)
        if any(math.isnan(v) for v in (x.real, x.imag, y.real, y.imag)):
            return False
        return x == y
    if isinstance(x, float) and math.isnan(x):
        return False
    return x == y


def check_overloads(vals):
    """Exhaustive over operand-kind pairs for one draw of values.  Returns (n_evaluated, fired, problems)."""
    L = lntree.L()
    trees = operand_trees(vals)
    env = env_from(vals)
    problems = []
    n = 0
    fired = set()
    values = {}
    for k, t in trees.items():
        values[k] = lntree.eval_expr(t, env)
    keys = list(trees)

    def judge(label, built, expected, raw_kind=None):
        nonlocal n
        n += 1
        try:
            got = lntree.eval_expr(lntree.unbuild(built), env)
        except ZeroDivisionError:
            return
        if type(built).__name__ != raw_kind:
            fired.add(label.split("|")[0])
        if not same_value(got, expected):
            problems.append({"case": label, "got": repr(got), "expected": repr(expected), "built": canon(lntree.unbuild(built))[:300]})

    for ka, kb in itertools.product(keys, keys):
        va, vb = values[ka], values[kb]
        for op, f in OPS.items():
            if op == "div" and (vb == 0 or (is_int(va) and is_int(vb))):
                continue
            la, lb = lntree.build(trees[ka]), lntree.build(trees[kb])
            try:
                built = f(la, lb)
            except ValueError as e:
                if "Division by zero" in str(e):
                    continue
                raise
            judge(f"{ka} {op} {kb}|pair", built, f(va, vb), RAW[op])
    for ka in keys:
        va = values[ka]
        la = lntree.build(trees[ka])
        judge(f"neg {ka}|unary", -la, -va, "Neg")
        for num in PYNUMS:
            for op, f in OPS.items():
                for reflected in (False, True):
                    x, y = (num, va) if reflected else (va, num)
                    if op == "div" and (y == 0 or (is_int(x) and is_int(y))):
                        continue
                    la = lntree.build(trees[ka])
                    try:
                        built = f(num, la) if reflected else f(la, num)
                    except ValueError as e:
                        if "Division by zero" in str(e):
                            continue
                        raise
                    judge(f"{'r' if reflected else ''}{op} {ka} num={num!r}|number", built, f(x, y), RAW[op])
    # float_product
    for r in (0, 1, 2, 3):
        for combo in itertools.product(["F1", "Fpos", "SymR", "I1", "Fneg", "Product"], repeat=r):
            built = L.float_product([lntree.build(trees[k]) for k in combo])
            exp = 1.0
            for k in combo:
                exp = exp * values[k]
            judge(f"float_product {combo}|float_product", built, exp, "Product")
    return n, fired, problems


def check_multiindex(sizes, idx):
    """global_index == row-major flattening; create_nested_for_loops visits every multi-index once."""
    L = lntree.L()
    problems = []
    names = ["i", "j", "iq", "ic"][: len(sizes)]
    syms = [L.Symbol(nm, L.DataType.INT) for nm in names]
    mi = L.MultiIndex(syms, list(sizes))
    env = dict(zip(names, idx))
    got = lntree.eval_expr(lntree.unbuild(mi.global_index), env)
    exp = int(np.ravel_multi_index(tuple(idx), tuple(sizes))) if sizes else 0
    if got != exp:
        problems.append({"case": f"MultiIndex{list(sizes)} at {list(idx)}", "got": got, "expected": exp})
    if sizes:
        cnt = L.Symbol("cnt", L.DataType.INT)
        body = L.Statement(L.AssignAdd(L.ArrayAccess(cnt, [mi]), L.LiteralInt(1)))
        loops = L.create_nested_for_loops([mi], body)
        total = int(np.prod(sizes))
        arr = np.zeros(total, dtype=np.int64)
        m = lntree.Machine({"cnt": arr})
        try:
            m.run(lntree.unbuild(loops))
            if not np.all(arr == 1):
                problems.append({"case": f"create_nested_for_loops{list(sizes)}", "got": arr.tolist()[:20], "expected": "all ones"})
        except (lntree.OutOfBounds, lntree.Undefined) as e:
            problems.append({"case": f"create_nested_for_loops{list(sizes)}", "got": str(e), "expected": "in-bounds visit of every entry"})
    return problems


VALUES = st.fixed_dictionaries({
    "fpos": st.floats(0.01, 50, allow_nan=False).filter(lambda v: v not in (1.0,)),
    "fneg": st.floats(0.01, 50, allow_nan=False).filter(lambda v: v not in (1.0,)),
    "ipos": st.integers(2, 9),
    "ineg": st.integers(2, 9),
    "a": st.floats(-3, 3, allow_nan=False).filter(lambda v: abs(v) > 1e-3),
    "b": st.floats(-3, 3, allow_nan=False).filter(lambda v: abs(v) > 1e-3),
    "s": st.floats(-3, 3, allow_nan=False).filter(lambda v: abs(v) > 1e-3),
    "i": st.integers(1, 5),
    "j": st.integers(1, 5),
})


def outcome_overloads(vals):
    n, fired, problems = check_overloads(vals)
    h = spec_hash(vals)
    cls = ["overloads"]
    if problems:
        p = problems[0]
        kind = p["case"].split("|")[1]
        opk = p["case"].split("|")[0]
        return Outcome("violation", case_id=h, classes=cls, key=f"{PROP}:overload:{opk}", bucket=f"{PROP}:overload:{kind}:{opk.split(' num=')[0]}",
                       what=f"{p['case']}: built tree {p['built']} evaluates to {p['got']} but the operation on the operand values gives {p['expected']} "
                            f"({len(problems)} failing combinations for this draw)", replay={"kind": "overloads", "values": vals, "problems": problems[:20]})
    o = Outcome("ok", case_id=h, nontrivial=len(fired) > 0, classes=cls, sample={"values": vals, "folding_rules_fired": len(fired)})
    o.fired = fired
    o.n = n
    return o


# ---------------------------------------------------------------------------------------
# (b) optimiser passes on generated kernel bodies
# ---------------------------------------------------------------------------------------

BODY_PROFILE = {"cells": ["interval", "triangle", "quadrilateral", "tetrahedron"], "measures": ["dx", "ds", "dS", "dS"], "arities": [0, 1, 2, 2], "maxdeg": 2,
                "max_integrals": 2, "max_qdeg": 3, "depth": 1, "ncoef": (0, 2), "p_scheme": 0.0, "p_vertex": 0.0, "manifold": 0.1}
MODES = ["none", "sections", "sections+loops", "licm-only", "full"]


def outcome_body(spec, wd):
    sclean = strategies.strip_meta(spec)
    h = spec_hash(sclean)
    classes = strategies.spec_classes(spec)
    built = specs.build(sclean)
    if built.form.empty():
        return Outcome("zero-form", case_id=h, classes=classes)
    opts = {"scalar_type": "float64"}
    asts = {}
    try:
        for mode in MODES:
            a, _ = astgen.integral_asts(built.form, opts, mode=mode)
            asts[mode] = a
    except Exception as e:
        return Outcome("rejected", case_id=h, classes=classes + ["rejected:" + type(e).__name__], what=str(e)[:300])
    data = inputs.FormData(built, spec.get("data_seed", 0))
    ocoefs = built.form.coefficients()
    changed = False
    replay = {"kind": "body", "spec": sclean, "ufl_source": specs.to_source(sclean)}
    for k, base in enumerate(asts["none"]):
        itype = base["itype"]
        width = 2 if itype == "interior_facet" else 1
        iir = base["ir"]
        # pack as the kernel expects: coefficients of this form in reduced order (all present in w)
        fd_positions = list(range(len(ocoefs)))
        w = inputs.pack_w(ocoefs, _positions(built.form, opts), data, width)
        c = inputs.pack_c(built.form.constants(), data)
        x = inputs.pack_coordinates(data.x, width)
        nent = formcheck.entity_count(spec["cell"], itype)
        asize = int(np.prod(base["tensor_shape"])) if base["tensor_shape"] else 1
        if asize > 900:
            return Outcome("too-large", case_id=h, classes=classes)
        # entity / permutation arguments: interior-facet bodies are executed for two configurations (different local facets
        # on the two sides in both orders, a non-zero permutation code on one side)
        configs = [(None if itype == "cell" else [1 % nent, (nent - 1)][:width], [0, 0] if itype == "interior_facet" else None)]
        if itype == "interior_facet" and nent > 1:
            configs.append(([nent - 1, 0], [1, 0] if specs.TDIM[spec["cell"]] >= 2 else [0, 0]))
        for ent, perm in configs:
            results = {}
            for mode in MODES:
                tree = lntree.unbuild(asts[mode][k]["node"])
                if mode != "none" and tree != results["none"][1]:
                    changed = True
                try:
                    A, _m = astgen.execute_kernel(tree, asize, w, c, x, entity=ent, perm=perm)
                except (lntree.OutOfBounds, lntree.Undefined) as e:
                    kind = "use-before-definition" if isinstance(e, lntree.Undefined) else "out-of-bounds"
                    if mode == "none":
                        # not attributable to a pass; C08 judges bounds of the unoptimised body
                        return Outcome("unoptimised-body-fault", case_id=h, classes=classes + [kind])
                    return Outcome("violation", case_id=h, classes=classes, key=f"{PROP}:{h}", bucket=f"{PROP}:body:{kind}:{mode}",
                                   what=f"optimiser mode {mode!r} of kernel {k} ({itype}): {kind}: {e}", replay=dict(replay, mode=mode))
                results[mode] = (A, tree)
            A0 = results["none"][0]
            scale = float(np.max(np.abs(A0))) + 1e-30
            for mode in MODES[1:]:
                d = float(np.max(np.abs(results[mode][0] - A0)))
                if not d <= 1e-9 * scale + 1e-11:  # the floor covers tensors that vanish identically (both sides are rounding residue of O(1) terms)
                    return Outcome("violation", case_id=h, classes=classes, key=f"{PROP}:{h}", bucket=f"{PROP}:body:value:{mode}",
                                   what=f"optimiser mode {mode!r} changes kernel {k} ({itype}) of the form: max|A_opt - A_noopt| = {d:.3e} at scale {scale:.3e}",
                                   replay=dict(replay, mode=mode))
    # compiled: optimised vs unoptimised
    try:
        fr_opt = formcheck.FormRunner(spec, wd, name="o" + h, built=built).compile()
        with astgen.optimizer_mode("none"):
            fr_no = formcheck.FormRunner(spec, wd, name="n" + h, built=built).compile()
    except (kernels.Rejected, kernels.CompileError) as e:
        return Outcome("compile-problem", case_id=h, classes=classes + [type(e).__name__], what=str(e)[:300])
    for itype, sid in fr_opt.declared_groups():
        nent = formcheck.entity_count(spec["cell"], itype)
        ent = (1 % nent, nent - 1)
        A1, p1, n1, _ = fr_opt.run_group(itype, sid, data, entity=ent)
        A2, p2, n2, _ = fr_no.run_group(itype, sid, data, entity=ent)
        if A1 is None or A2 is None:
            continue
        scale = float(np.max(np.abs(A2))) + 1e-30
        d = float(np.max(np.abs(np.asarray(A1) - np.asarray(A2))))
        if not d <= 1e-9 * scale + 1e-11:  # the floor covers tensors that vanish identically (both sides are rounding residue of O(1) terms)
            return Outcome("violation", case_id=h, classes=classes, key=f"{PROP}:{h}", bucket=f"{PROP}:compiled:value",
                           what=f"compiled kernel ({itype},{sid}) differs with/without the optimiser: {d:.3e} at scale {scale:.3e}", replay=dict(replay, mode="compiled"))
    return Outcome("ok", case_id=h, nontrivial=changed, classes=classes + (["pass-changed-body"] if changed else []),
                   sample={"spec": sclean})


def _positions(form, opts):
    """original_coefficient_positions as FFCx's IR computes them (the packing the generated body expects)."""
    ir, _ = astgen.compute_ir([form], opts)
    return list(ir.forms[0].original_coefficient_positions)


def shard(shard, nshards, n_over, n_body, seed):
    res = ShardResult()
    fired_all = set()

    def ev_over(vals):
        o = outcome_overloads(vals)
        fired_all.update(getattr(o, "fired", ()))
        res.evaluations += getattr(o, "n", 1) - 1  # every (kind pair, operation) evaluated is a case
        return o

    drive(VALUES, ev_over, n_over, (PROP, seed, shard, "over"), res, shrink_calls=30)
    res.counters["folding-rule-sites-fired"] = len(fired_all)
    # each (kind pair, op) where a folding rule fired is a distinct non-trivial case
    for f in fired_all:
        res.nontrivial.add("fold:" + f)
    mi_strategy = st.lists(st.integers(1, 5), min_size=0, max_size=4).flatmap(
        lambda sizes: st.tuples(st.just(sizes), st.tuples(*[st.integers(0, s - 1) for s in sizes])))

    def ev_mi(case):
        sizes, idx = case
        problems = check_multiindex(sizes, list(idx))
        h = spec_hash([sizes, list(idx)])
        if problems:
            p = problems[0]
            return Outcome("violation", case_id=h, classes=["multiindex"], key=f"{PROP}:mi:{sizes}", bucket=f"{PROP}:multiindex",
                           what=f"{p['case']}: got {p['got']} expected {p['expected']}", replay={"kind": "multiindex", "sizes": sizes, "idx": list(idx)})
        return Outcome("ok", case_id=h, nontrivial=len(sizes) >= 2, classes=["multiindex"])

    drive(mi_strategy, ev_mi, 40, (PROP, seed, shard, "mi"), res, shrink_calls=50)
    with scratch(f"vf-c17-{shard}-") as wd:
        drive(strategies.forms(BODY_PROFILE, grammar=2, templates=1), lambda s: outcome_body(s, wd), n_body, (PROP, seed, shard, "body"), res, shrink_calls=25)
    return res


def run(tier: str) -> int:
    run_ = Run(PROP, tier, "exploration", RULE)
    n_over, n_body = (2, 6) if tier == "quick" else (thorough(20), thorough(50))
    for part in run_shards(shard, 16, n_over=n_over, n_body=n_body, seed=verif_seed()):
        run_.merge(part)
    run_.extra["operand_kinds"] = len(lnstrategies.operand_kinds())
    run_.extra["kind_pairs_exhaustive"] = True
    run_.assumptions = [
        "folding is judged on finite operand values with exact ==; INT/INT division and division by a zero-valued operand are outside the domain",
        "optimiser-pass equivalence is judged by executing FFCx's own AST in a Python interpreter of LNodes (C semantics) and by the compiled kernels",
    ]
    return run_.finish()


def replay(doc) -> int:
    rp = doc["replay"]
    if rp["kind"] == "overloads":
        o = outcome_overloads(rp["values"])
    elif rp["kind"] == "multiindex":
        pr = check_multiindex(rp["sizes"], rp["idx"])
        o = Outcome("violation" if pr else "ok", what=str(pr))
    else:
        with scratch("vf-replay-") as wd:
            o = outcome_body(rp["spec"], wd)
    print(o.status, o.what)
    if o.status == "violation":
        print(f"VIOLATION property={PROP} replay=(replayed)")
        return 1
    return 0
