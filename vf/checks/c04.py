"""C04  Expression kernels evaluate the expression at the given points (DESIGN.md 5, C04)."""

from __future__ import annotations

import itertools

import basix
import numpy as np
import ufl

from .. import formcheck, inputs, kernels, refeval, specs, strategies
from ..common import Run, ShardResult, run_shards, scratch, spec_hash, verif_seed
from ..common import thorough  # noqa: E402
from ..hyp import Outcome, drive

PROP = "C04"
RULE = (
    "Hypothesis-generated UFL expressions of value rank 0-3 and argument rank 0/1 (operator chains on coefficients and "
    "arguments incl. mixed/Piola/blocked elements, tensor-valued algebra, gradients of nonlinear scalars, expressions from "
    "which differentiation removes constants) at generated point sets on the cell or on a facet (every local facet, every "
    "permutation code), affine / degree-2 / manifold geometry. Oracle: A[point][component][dof] += reference value, with w/c "
    "packed only from the descriptor (assembler model) and the descriptor fields compared with the spec; for facet points and "
    "permutation code N the kernel must equal the reference at g_N(points) for a symmetry g_N of the reference facet that is "
    "the identity for N=0, orientation-reversing iff N is odd, and injective in N (convention-free). Non-trivial = value rank "
    ">= 1, or an argument, or facet points, or a dropped coefficient/constant; distinct by spec hash."
)


def facet_symmetries(facet_cell):
    """[(name, parity, map)] symmetries of a reference facet (interval / triangle / quadrilateral)."""
    V = np.asarray(basix.geometry(refeval.CT[facet_cell]))
    nv = V.shape[0]
    out = []
    if facet_cell == "interval":
        return [("id", 0, lambda p: p), ("reflect", 1, lambda p: 1.0 - p)]
    if facet_cell == "triangle":
        perms = list(itertools.permutations(range(3)))
    else:  # quadrilateral vertices 0,1,2,3 at (0,0),(1,0),(0,1),(1,1): symmetries of the square
        cyc = [0, 1, 3, 2]  # cyclic order around the square
        perms = []
        for r in range(4):
            for refl in (False, True):
                order = cyc[r:] + cyc[:r]
                if refl:
                    order = [order[0]] + order[1:][::-1]
                perm = [0] * 4
                for k, v in zip(cyc, order):
                    perm[k] = v
                perms.append(tuple(perm))
    for perm in perms:
        W = V[list(perm)]
        # parity: orientation of the affine map vertex i -> vertex perm[i]
        M = np.array([W[1] - W[0], W[2] - W[0]]).T
        M0 = np.array([V[1] - V[0], V[2] - V[0]]).T
        par = 0 if np.linalg.det(M) * np.linalg.det(M0) > 0 else 1

        def f(p, W=W):
            p = np.asarray(p)
            if facet_cell == "triangle":
                return W[0] + np.outer(p[:, 0], W[1] - W[0]) + np.outer(p[:, 1], W[2] - W[0])
            s, t = p[:, 0], p[:, 1]
            return (np.outer((1 - s) * (1 - t), W[0]) + np.outer(s * (1 - t), W[1]) + np.outer((1 - s) * t, W[2]) + np.outer(s * t, W[3]))

        out.append(("id" if tuple(perm) == tuple(range(nv)) else str(perm), par, f))
    return out


def nontrivial(spec, desc, n_orig_coefs, n_orig_consts):
    return (len(desc["value_shape"]) >= 1 or desc["rank"] >= 1 or spec.get("facet")
            or desc["num_coefficients"] < n_orig_coefs or desc["num_constants"] < n_orig_consts)


def evaluate(spec, wd):
    sclean = strategies.strip_meta(spec)
    h = spec_hash(sclean)
    classes = strategies.expr_classes(spec)
    # expressions are compiled for all four scalar types (C09 covers forms only); complex types get complex data
    st_ = ["float64", "float64", "float32", "complex128", "complex64"][spec["data_seed"] % 5]
    if "op:pow-int-base" in spec.get("_features", []) and "complex" in st_:
        st_ = "float64"  # 2**f: UFL's complex-mode lowering does not terminate on it
    classes.append("scalar:" + st_)
    built = specs.build(sclean)
    expr, pts = built.obj
    sample = {"spec": sclean, "ufl": specs._src(sclean["e"])[:300]}
    replay = {"spec": sclean, "scalar_type": st_, "ufl_source": specs.to_source(sclean)}
    try:
        mod = kernels.compile_module([(expr, pts)], {"scalar_type": st_}, workdir=wd, name="e" + h)
    except kernels.Rejected as e:
        return Outcome("rejected", case_id=h, classes=classes + ["rejected:" + type(e.exc).__name__], what=str(e)[:300])
    except kernels.CompileError as e:
        return Outcome("cc-error", case_id=h, classes=classes, what=e.stderr[-300:])
    cexpr = mod.objects[0]
    d = kernels.read_expression_descriptor(mod.ffi, cexpr)
    cell = spec["cell"]
    tdim = specs.TDIM[cell]
    facet = bool(spec.get("facet"))

    def viol(kind, what, extra=None):
        return Outcome("violation", case_id=h, classes=classes, key=f"{PROP}:{kind}:{h}", bucket=f"{PROP}:{kind}:{'facet' if facet else 'cell'}",
                       what=what, replay=dict(replay, **(extra or {})), sample=sample)

    # ---- descriptor vs spec ----------------------------------------------------------
    orig_coefs = ufl.algorithms.extract_coefficients(expr)
    orig_consts = ufl.algorithms.analysis.extract_constants(expr)
    low = refeval.lower_expression(expr, st_)
    surv = ufl.algorithms.extract_coefficients(low)
    args = ufl.algorithms.extract_arguments(low)
    exp = {
        "num_points": pts.shape[0],
        "entity_dimension": pts.shape[1],
        "points": [float(v) for v in pts.ravel()],
        "value_shape": [int(s) for s in expr.ufl_shape],
        "num_components": len(expr.ufl_shape),
        "rank": len(args),
        "num_coefficients": len(surv),
        "original_coefficient_positions": [orig_coefs.index(c) for c in surv],
        "coordinate_element_hash": int(built.mesh.ufl_coordinate_element().basix_hash()) if ufl.domain.extract_domains(low) else 0,
    }
    for k, v in exp.items():
        if d[k] != v:
            return viol("descriptor", f"descriptor field {k} = {d[k]!r} but the expression gives {v!r}")
    if len(d["coefficient_names"]) != d["num_coefficients"] or len(d["constant_names"]) != d["num_constants"]:
        return viol("descriptor", "name list lengths differ from the counts")
    # ---- values ----------------------------------------------------------------------
    ndofs = args[0].ufl_function_space().ufl_element().dim if args else None
    ncomp = int(np.prod(expr.ufl_shape)) if expr.ufl_shape else 1
    A_shape = (pts.shape[0], ncomp) + ((ndofs,) if ndofs is not None else ())
    complex_ = "complex" in st_
    nfac = formcheck.entity_count(cell, "exterior_facet") if facet else 1
    fcell = {"triangle": "interval", "quadrilateral": "interval", "tetrahedron": "triangle", "hexahedron": "quadrilateral"}.get(cell)
    syms = facet_symmetries(fcell) if facet else [("id", 0, None)]
    checked = 0
    for trial in range(1 if facet else 2):
        dseed = (spec["data_seed"] + 104729 * trial) & 0x7FFFFFFF
        data = inputs.FormData(built, dseed, complex_=complex_)
        # assembler model: coefficients the descriptor lists, constants: the first num_constants original constants
        w = inputs.pack_w(orig_coefs, d["original_coefficient_positions"], data, 1)
        c = inputs.pack_c(orig_consts[: d["num_constants"]], data)
        x = inputs.pack_coordinates(data.x, 1)
        facets = range(nfac) if facet else [0]
        for fidx in facets:
            refs = {}
            try:
                for name, par, fmap in syms:
                    Aref, E, _ = refeval.expression_reference(expr, pts, cell, data.coef, data.const, data.x, entity=fidx, on_facet=facet,
                                                              scalar_type=st_, point_map=fmap)
                    refs[name] = (Aref.reshape(A_shape), E.reshape(A_shape), par)
            except refeval.Unstable:
                classes.append("inputs-redrawn-unstable")
                continue
            except refeval.Unsupported as e:
                classes.append("ref-unsupported:" + str(e)[:40])
                continue
            ncodes = len(syms) if facet else 1
            matched = {}
            for code in range(ncodes):
                A0 = inputs.coefficient_values(inputs.rng_for(dseed, 91), int(np.prod(A_shape)), False).reshape(A_shape)
                ent = [fidx] if facet else None
                pm = [code] if facet else None
                r = kernels.call_kernel(mod.ffi, cexpr, st_, A_shape, w, c, x, entity=ent, perm=pm, A0=A0)
                if r.problems:
                    return viol("guard", f"facet {fidx} code {code}: " + "; ".join(r.problems), {"data_seed": dseed})
                dA = np.asarray(r.A) - A0
                tolA = refeval.Tol(st_).u * np.abs(A0)
                hits = []
                worst_info = None
                for name, (Aref, E, par) in refs.items():
                    ok, worst, idx = formcheck.compare(dA, Aref, E + tolA + refeval.Tol(st_).u * np.abs(Aref))
                    if ok:
                        hits.append(name)
                    if name == "id":
                        worst_info = (name, worst, idx, dA[idx] if idx else dA, Aref[idx] if idx else Aref)
                if not facet or code == 0:
                    if "id" not in hits:
                        nm, worst, idx, got, want = worst_info
                        return viol("value", f"{'facet %d code 0' % fidx if facet else 'cell points'}: A{list(idx)} = {got!r} but the expression "
                                    f"evaluates to {want!r} there (ratio to error bound {worst:.3g})", {"data_seed": dseed, "facet": fidx})
                    matched[code] = "id"
                else:
                    good = [nm for nm in hits if refs[nm][2] == code % 2]
                    if not good:
                        return viol("permutation", f"facet {fidx}, permutation code {code}: the kernel output equals the expression at g(points) for "
                                    f"symmetries {hits or 'none'} of the reference facet; none has the parity of the code", {"data_seed": dseed, "facet": fidx, "code": code})
                    matched[code] = good
                checked += 1
            if facet and len(syms) > 2:
                # injectivity: distinct codes must correspond to distinct symmetries (system of distinct representatives)
                cand = [matched[k] if isinstance(matched[k], list) else [matched[k]] for k in sorted(matched)]
                if not _sdr(cand):
                    return viol("permutation", f"facet {fidx}: permutation codes do not map injectively to facet symmetries: {matched}", {"data_seed": dseed})
    if checked == 0:
        return Outcome("inconclusive", case_id=h, classes=classes)
    return Outcome("ok", case_id=h, nontrivial=nontrivial(spec, d, len(orig_coefs), len(orig_consts)), classes=classes, sample=sample)


def _sdr(cands):
    """Is there a system of distinct representatives?"""
    def rec(i, used):
        if i == len(cands):
            return True
        return any(rec(i + 1, used | {c}) for c in cands[i] if c not in used)

    return rec(0, frozenset())


def shard(shard, nshards, n, tier, seed):
    res = ShardResult()
    with scratch(f"vf-c04-{shard}-") as wd:
        drive(strategies.expr_specs({"int_base_pow": True}), lambda s: evaluate(s, wd), n, (PROP, seed, shard), res, shrink_calls=40)
    return res


def run(tier: str) -> int:
    run_ = Run(PROP, tier, "exploration", RULE)
    n = 10 if tier == "quick" else thorough(70)
    for part in run_shards(shard, 16, n=n, tier=tier, seed=verif_seed()):
        run_.merge(part)
    run_.assumptions = [
        "UFL algebra lowering/derivatives/pull-backs/geometry lowering (same public algorithms FFCx requests) and basix are trusted",
        "constants are packed in the original expression's order, as many as the descriptor's num_constants says",
    ]
    return run_.finish()


def replay(doc) -> int:
    rp = doc["replay"]
    with scratch("vf-replay-") as wd:
        o = evaluate(rp["spec"], wd)
    print(o.status, o.what)
    if o.status == "violation":
        print(f"VIOLATION property={PROP} replay=(replayed)")
        return 1
    return 0
