"""C03  Interior-facet results do not depend on the cells' local vertex numbering (DESIGN.md 5, C03)."""

from __future__ import annotations

import itertools

import basix
import numpy as np
from hypothesis import strategies as st

from .. import formcheck, inputs, kernels, refeval, specs, strategies
from ..common import Run, ShardResult, run_shards, scratch, spec_hash, verif_seed
from ..common import thorough  # noqa: E402
from ..hyp import Outcome, drive

PROP = "C03"
RULE = (
    "Two physical cells sharing a facet (triangle, quadrilateral, tetrahedron, hexahedron; affine, random geometry) in every "
    "pair of local vertex numberings (36 triangle pairs, 64 quadrilateral pairs, 576 tetrahedron pairs - sampled in the quick "
    "tier -, sampled hexahedron pairs of the 48x48), Hypothesis grammar-generated dS functionals and linear forms over Lagrange/DG "
    "spaces (scalar and vector) with polynomial global fields sampled at each cell's nodes in that cell's local ordering; coefficients "
    "also in lowest-order N1curl/N2curl/RT/BDM spaces (simplices), their dofs obtained per cell by interpolating a physical field of the space "
    "through that cell's own geometry and numbering. "
    "Convention-free oracle: (1) for every numbering pair the probe kernel of |x('+')-x('-')|^2 dS must vanish for at least one "
    "pair of permutation codes (the coinciding codes M), and the reflection counts N mod 2 of every coinciding pair must add up to the relative "
    "orientation of the two sides' facet parametrisations; (2) for all numbering pairs and all code pairs in M the kernel result, "
    "mapped back to physical nodes, equals the reference evaluator's value for the base numbering with codes (0,0) (code 0 is "
    "the identity, so no rotation/reflection convention enters); (3) needs_facet_permutations == false implies bit-identical "
    "output for every permutation argument including NULL. Non-trivial = numbering pair whose coinciding codes are not (0,0) and "
    "a form whose value changes for non-coinciding codes; distinct by (spec hash, numbering pair)."
)
P_FORMS = {"cells": ["triangle", "quadrilateral", "tetrahedron", "hexahedron"], "measures": ["dS"], "arities": [0, 0, 1], "max_integrals": 2,
           "depth": 1, "maxdeg": 2, "max_qdeg": 4, "min_qdeg": 2, "manifold": 0.0, "nonaffine": 0.0, "affine_only": True, "ncoef": (1, 3),
           "element_tags": ["P", "DG", "vecP", "vecDG"], "coef_element_tags": [["N1curl", 1], ["RT", 1], ["BDM", 1], ["N2curl", 1]], "geo": ["x", "n"], "p_scheme": 0.5, "p_vertex": 0.0, "ids": "few", "p_multiterm": 0.0,
           "nconst": (0, 1)}
NCODES = {"triangle": 2, "quadrilateral": 2, "tetrahedron": 6, "hexahedron": 8}


def cell_symmetries(cell):
    """Vertex permutations sigma (new local vertex i = old vertex sigma[i]) that are valid renumberings of the cell."""
    V = np.asarray(basix.geometry(refeval.CT[cell]))
    n, tdim = V.shape
    if cell in ("interval", "triangle", "tetrahedron"):
        return [tuple(p) for p in itertools.permutations(range(n))]
    out = []
    for perm in itertools.permutations(range(tdim)):
        for flips in itertools.product([0, 1], repeat=tdim):
            # X -> P X (+ flips): new reference position of old vertex
            W = V[:, list(perm)].copy()
            for d, f in enumerate(flips):
                if f:
                    W[:, d] = 1 - W[:, d]
            # old vertex k sits at reference position W[k] in the new numbering: new index = index of W[k] in V
            new_of_old = [int(np.argmin(np.abs(V - W[k]).sum(axis=1))) for k in range(n)]
            sigma = [0] * n
            for old, new in enumerate(new_of_old):
                sigma[new] = old
            out.append(tuple(sigma))
    return sorted(set(out))


def base_cells(cell, seed):
    """Physical vertex coordinates of two cells sharing a facet, in the base numbering, plus the shared facets' local indices."""
    rng = inputs.rng_for(seed, 303)
    V = np.asarray(basix.geometry(refeval.CT[cell]))
    tdim = V.shape[1]
    A, b = inputs.random_affine(rng, tdim, tdim)
    P0 = inputs.f32(V @ A.T + b)
    topo = basix.topology(refeval.CT[cell])
    if cell in ("triangle", "tetrahedron"):
        f0 = 0  # facet opposite vertex 0
        fv = topo[tdim - 1][f0]
        P1 = P0.copy()
        centroid = P0[fv].mean(axis=0)
        # mirror vertex 0 through the facet's centroid and push it sideways so that the pair is not symmetric
        shift = (P0[fv[0]] - centroid) * 0.3
        P1[0] = inputs.f32(2 * centroid - P0[0] + shift)
        return P0, P1, f0, f0
    # tensor cells: translate along reference direction 0; facet X0=1 of cell0 == facet X0=0 of cell1
    e0 = A[:, 0]
    P1 = inputs.f32(P0 + e0)
    P0 = inputs.f32(P0)

    def facet_with(vals):
        for f, vs in enumerate(topo[tdim - 1]):
            if all(abs(V[v][0] - vals) < 1e-12 for v in vs):
                return f
        raise RuntimeError

    return P0, P1, facet_with(1.0), facet_with(0.0)


def local_facet(cell, sigma, old_facet):
    """Local index of the facet (given in the old numbering) after renumbering with sigma."""
    topo = basix.topology(refeval.CT[cell])
    tdim = len(topo) - 1
    old_vs = set(topo[tdim - 1][old_facet])
    new_vs = {i for i in range(len(sigma)) if sigma[i] in old_vs}
    for f, vs in enumerate(topo[tdim - 1]):
        if set(vs) == new_vs:
            return f
    raise RuntimeError("facet not found")


def relative_facet_parity(cell, Ps, ents):
    """0 if the two cells' reference parametrisations of the shared facet have the same orientation, 1 otherwise.

    Side r parametrises the facet through the reference vertices of its local facet ents[r]; matching the physical vertex
    positions gives the vertex permutation between the two parametrisations, whose affine map is orientation preserving or not.
    """
    topo = basix.topology(refeval.CT[cell])
    tdim = len(topo) - 1
    fct = refeval.sub_entity_type(cell, tdim - 1, ents[0])
    V = np.asarray(basix.geometry(fct))
    Q = [np.asarray(Ps[r])[topo[tdim - 1][ents[r]]] for r in range(2)]
    pi = []
    for i in range(Q[0].shape[0]):
        dist = np.abs(Q[1] - Q[0][i]).sum(axis=1)
        pi.append(int(np.argmin(dist)))
        if dist[pi[-1]] > 1e-5 * (1 + np.abs(Q[0]).max()):
            raise RuntimeError("harness: the two cells do not share the facet vertices")
    k = V.shape[1]
    M0 = np.array([V[i + 1] - V[0] for i in range(k)]).T
    M1 = np.array([V[pi[i + 1]] - V[pi[0]] for i in range(k)]).T
    return 0 if np.linalg.det(M1) * np.linalg.det(M0) > 0 else 1


def poly_field(seed, k, degree, gdim, ncomp):
    """A polynomial of total degree <= `degree` in physical coordinates with reproducible coefficients."""
    rng = inputs.rng_for(seed, 900 + k)
    exps = [e for e in itertools.product(range(degree + 1), repeat=gdim) if sum(e) <= degree]
    coef = inputs.f32(rng.uniform(-1, 1, size=(ncomp, len(exps))))

    def f(x):
        x = np.atleast_2d(x)
        mon = np.stack([np.prod(x ** np.array(e), axis=1) for e in exps], axis=1)
        return mon @ coef.T  # (npts, ncomp)

    return f


def node_positions(element, Pverts, cell):
    """Physical positions of the nodal points of a (scalar sub-)element for an affine/multilinear cell with vertices Pverts."""
    sub = element._sub_element if type(element).__name__ == "_BlockedElement" else element
    X = np.asarray(sub._element.points)
    ce = basix.create_element(basix.ElementFamily.P, refeval.CT[cell], 1, basix.LagrangeVariant.gll_warped)
    T = ce.tabulate(0, X)[0][:, :, 0]
    return T @ Pverts


PIOLA = {"N1curl": "covariant", "N2curl": "covariant", "RT": "contravariant", "BDM": "contravariant"}


def piola_kind(el):
    fam = getattr(getattr(el, "_element", None), "family", None)
    name = getattr(fam, "name", "")
    return {"N1E": "covariant", "N2E": "covariant", "RT": "contravariant", "BDM": "contravariant"}.get(name)


def piola_field(seed, k, el, gdim):
    """A physical vector field that lies in the (lowest-order) Piola-mapped space `el` on every affine cell."""
    rng = inputs.rng_for(seed, 1900 + k)
    a = inputs.f32(rng.uniform(-1, 1, size=gdim))
    name = el._element.family.name
    if name in ("BDM", "N2E"):  # full P1^d
        B = inputs.f32(rng.uniform(-1, 1, size=(gdim, gdim)))
    elif name == "RT":  # a + b x
        B = float(inputs.f32(rng.uniform(-1, 1))) * np.eye(gdim)
    else:  # N1curl: a + S x with S skew-symmetric
        R = inputs.f32(rng.uniform(-1, 1, size=(gdim, gdim)))
        B = R - R.T
    return lambda x: a[None, :] + np.atleast_2d(x) @ B.T


def piola_dofs(el, Pverts, field, kind):
    """Dofs of the interpolant of `field` on the affine simplex with vertices Pverts (basix reference interpolation of the pull-back)."""
    be = el._element
    X = np.asarray(be.points)
    M = np.asarray(be.interpolation_matrix)
    J = np.array([Pverts[i + 1] - Pverts[0] for i in range(Pverts.shape[1])]).T
    x = Pverts[0][None, :] + X @ J.T
    u = field(x)  # (npts, gdim)
    if kind == "covariant":
        uh = u @ J  # (J^T u)^T
    else:
        uh = np.linalg.det(J) * (u @ np.linalg.inv(J).T)  # (detJ K u)^T
    dofs = M @ uh.T.reshape(-1)
    # self-test of the construction: the interpolant reproduces the field (it lies in the space)
    Xq = np.full((1, X.shape[1]), 1.0 / (X.shape[1] + 2)) + 0.05 * np.arange(X.shape[1])[None, :]
    T = np.asarray(be.tabulate(0, Xq))[0]  # (1, ndofs*vs) or (1, ndofs, vs)
    T = T.reshape(1, be.dim, -1)
    ref = np.einsum("d,pdc->pc", dofs, T)
    K = np.linalg.inv(J)
    phys = ref @ K if kind == "covariant" else (ref @ J.T) / np.linalg.det(J)
    want = field(Pverts[0][None, :] + Xq @ J.T)
    if not np.allclose(phys, want, atol=1e-9 * (1 + np.abs(want).max())):
        raise RuntimeError(f"harness: Piola interpolation does not reproduce the field ({kind}): {phys} vs {want}")
    return dofs


class Setup:
    def __init__(self, fr, cell, seed):
        self.fr = fr
        self.cell = cell
        self.seed = seed
        self.P = base_cells(cell, seed)
        self.tdim = specs.TDIM[cell]
        built = fr.built
        self.fields = {}
        for k, f in enumerate(built.coefs):
            el = f.ufl_function_space().ufl_element()
            deg = min(int(el.embedded_subdegree), 2)
            ncomp = int(np.prod(el.reference_value_shape)) if el.reference_value_shape else 1
            # one polynomial per side: the functions may be discontinuous across the facet
            if piola_kind(el):
                self.fields[f] = [piola_field(seed, 2 * k + r, el, self.tdim) for r in range(2)]
            else:
                self.fields[f] = [poly_field(seed, 2 * k + r, deg, self.tdim, ncomp) for r in range(2)]
        self.consts = {c: inputs.coefficient_values(inputs.rng_for(seed, 77 + i), int(np.prod(c.ufl_shape)) if c.ufl_shape else 1, False)
                       for i, c in enumerate(built.consts)}

    def data_for(self, sigmas):
        """coefficient data, coordinates for a pair of numberings."""
        P0, P1, f0, f1 = self.P
        Ps = [P0[list(sigmas[0])], P1[list(sigmas[1])]]
        coef = {}
        for f, fields in self.fields.items():
            el = f.ufl_function_space().ufl_element()
            vals = []
            for r in range(2):
                if piola_kind(el):
                    # Piola-mapped coefficient: per-cell interpolation of a physical field of the space through the cell's own
                    # geometry and numbering (no global dof orientation is needed: each side has its own dofs)
                    vals.append(piola_dofs(el, Ps[r], fields[r], piola_kind(el)))
                    continue
                pos = node_positions(el, Ps[r], self.cell)
                v = fields[r](pos)  # (nodes, ncomp)
                vals.append(v.reshape(-1))  # blocked layout: node-major, component fastest
            coef[f] = vals
        ents = (local_facet(self.cell, sigmas[0], f0), local_facet(self.cell, sigmas[1], f1))
        return coef, Ps, ents


class _Data:
    def __init__(self, coef, const, x):
        self.coef, self.const, self.x = coef, const, x


def evaluate(spec, wd, max_pairs, rng_seed):
    sclean = strategies.strip_meta(spec)
    h = spec_hash(sclean)
    cell = spec["cell"]
    classes = strategies.spec_classes(spec)
    try:
        fr = formcheck.FormRunner(spec, wd, name="f" + h)
        if fr.is_zero_form():
            return Outcome("zero-form", case_id=h, classes=classes)
        fr.compile()
    except (kernels.Rejected, kernels.CompileError) as e:
        return Outcome("rejected", case_id=h, classes=classes, what=str(e)[:300])
    # probe: |x('+') - x('-')|^2 dS on the same cell type
    probe_spec = {"kind": "form", "cell": cell, "gdim": spec["gdim"], "cdeg": 1, "elements": [], "args": [], "coefs": [], "consts": [],
                  "integrals": [{"m": "dS", "id": None, "md": {"quadrature_degree": 3},
                                 "e": ["inner", ["sub", ["+", ["geo", "x"]], ["-", ["geo", "x"]]], ["sub", ["+", ["geo", "x"]], ["-", ["geo", "x"]]]]}]}
    pr = formcheck.FormRunner(probe_spec, wd, name="p" + cell).compile()
    st_ = Setup(fr, cell, spec["data_seed"])
    groups = [g for g in fr.declared_groups() if g[0] == "interior_facet"]
    if not groups:
        return Outcome("no-target-integral", case_id=h, classes=classes)
    syms = cell_symmetries(cell)
    ident = tuple(range(len(syms[0])))
    pairs = list(itertools.product(syms, syms))
    exhaustive = len(pairs) <= max_pairs
    if not exhaustive:
        rng = inputs.rng_for(rng_seed, 5)
        sel = rng.choice(len(pairs), size=max_pairs - 1, replace=False)
        pairs = [(ident, ident)] + [pairs[i] for i in sorted(sel)]
    ncodes = NCODES[cell]
    codes = list(itertools.product(range(ncodes), range(ncodes)))
    replay = {"spec": sclean, "ufl_source": specs.to_source(sclean)}
    sample = {"spec": sclean, "ufl": specs.to_source(sclean).split("\n")[-2][:300]}
    # reference at the base numbering, codes (0,0)
    coef0, Ps0, ents0 = st_.data_for((ident, ident))
    d0 = _Data(coef0, st_.consts, Ps0)
    nontrivial_pairs = set()
    sensitive = False
    for itype, sid in groups:
        try:
            Aref, E = fr.reference(itype, sid, d0, entity=ents0)
        except (refeval.Unstable, refeval.Unsupported) as e:
            return Outcome("inconclusive", case_id=h, classes=classes + [type(e).__name__])
        flag_false = all(not fr.desc["integrals"][i]["needs_facet_permutations"] for i in kernels.integrals_of(fr.desc, itype, sid))
        scale = float(np.max(np.abs(Aref))) + 1e-30
        argel = fr.fd.argument_elements[0] if fr.fd.argument_elements else None
        ref_by_node = None
        if argel is not None:
            ref_by_node = _by_node(np.asarray(Aref), argel, Ps0, cell)
            Eb = _by_node(np.asarray(E), argel, Ps0, cell)
        for sig in pairs:
            coef, Ps, ents = st_.data_for(sig)
            d = _Data(coef, st_.consts, Ps)
            M = []
            pscale = None
            for cp in codes:
                v, pp, n, _ = pr.run_group("interior_facet", -1, d, entity=ents, perm=cp)
                v = float(np.asarray(v).ravel()[0])
                if pscale is None or v > pscale:
                    pscale = v
                M.append((cp, v))
            tolp = 1e-11 * (max(pscale, 1e-30) + float(np.max(np.abs(Ps[0])) ** 2))
            Mset = [cp for cp, v in M if abs(v) <= tolp]
            if not Mset:
                return Outcome("violation", case_id=h, classes=classes, key=f"{PROP}:no-coinciding-code:{cell}", bucket=f"{PROP}:no-coinciding-code:{cell}",
                               what=f"numbering pair {sig}, facets {ents}: no pair of permutation codes makes the two sides' quadrature points coincide "
                                    f"(probe values {[round(v, 6) for _, v in M][:12]})", replay=dict(replay, sigmas=[list(s) for s in sig]), sample=sample)
            # "N mod 2 reflections": the relative orientation of the two sides' facet parametrisations fixes the parity of p0 + p1
            par = relative_facet_parity(cell, Ps, ents)
            wrong = [cp for cp in Mset if (cp[0] + cp[1]) % 2 != par]
            if wrong:
                return Outcome("violation", case_id=h, classes=classes, key=f"{PROP}:parity:{cell}", bucket=f"{PROP}:reflection-parity:{cell}",
                               what=f"numbering pair {sig}, facets {ents}: the two sides parametrise the facet with relative orientation parity {par}, but the "
                                    f"quadrature points coincide for permutation codes {wrong} whose reflection counts (N mod 2) have the other parity",
                               replay=dict(replay, sigmas=[list(s) for s in sig]), sample=sample)
            vals = {}
            for cp in codes:
                A, problems, n, _ = fr.run_group(itype, sid, d, entity=ents, perm=cp)
                if problems:
                    return Outcome("violation", case_id=h, classes=classes, key=f"{PROP}:guard:{h}", bucket=f"{PROP}:guard", what="; ".join(problems), replay=replay)
                vals[cp] = np.asarray(A)
            if flag_false:
                # the permutation only reorders the quadrature sum of one side: equal up to rounding (the pointer is still read,
                # DOLFINx passes {0,0}, so NULL is not part of the contract)
                tolf = formcheck.TOL_FACTOR * float(np.max(np.asarray(E))) + 1e-11 * scale
                for cp in codes:
                    if not np.max(np.abs(vals[cp] - vals[(0, 0)])) <= tolf:
                        return Outcome("violation", case_id=h, classes=classes, key=f"{PROP}:flag:{h}", bucket=f"{PROP}:needs_facet_permutations-false",
                                       what=f"needs_facet_permutations is false but the output depends on the permutation argument (codes {cp} vs (0,0): "
                                            f"{np.max(np.abs(vals[cp] - vals[(0, 0)])):.3e}, scale {scale:.3e}), numbering pair {sig}",
                                       replay=dict(replay, sigmas=[list(s) for s in sig]), sample=sample)
            for cp in Mset:
                got = vals[cp]
                if argel is None:
                    ok = abs(complex(got.ravel()[0]) - complex(np.asarray(Aref).ravel()[0])) <= formcheck.TOL_FACTOR * float(np.asarray(E).ravel()[0]) + 1e-12 * scale
                    diff = abs(got.ravel()[0] - np.asarray(Aref).ravel()[0])
                else:
                    gb = _by_node(got, argel, Ps, cell)
                    keys = set(gb) | set(ref_by_node)
                    diff = max(abs(gb.get(k, 0.0) - ref_by_node.get(k, 0.0)) for k in keys)
                    ok = all(abs(gb.get(k, 0.0) - ref_by_node.get(k, 0.0)) <= formcheck.TOL_FACTOR * Eb.get(k, 0.0) + 1e-12 * scale for k in keys)
                if not ok:
                    return Outcome("violation", case_id=h, classes=classes, key=f"{PROP}:value:{h}", bucket=f"{PROP}:numbering-dependence:{cell}",
                                   what=f"numbering pair {sig} (facets {ents}), coinciding permutation codes {cp}: result differs from the base numbering's "
                                        f"by {diff:.3e} (scale {scale:.3e}); coinciding codes found: {Mset}", replay=dict(replay, sigmas=[list(s) for s in sig], codes=list(cp)),
                                   sample=sample)
            others = [cp for cp in codes if cp not in Mset]
            if any(np.max(np.abs(vals[cp] - vals[Mset[0]])) > 1e-6 * scale for cp in others):
                sensitive = True
            if (0, 0) not in Mset:
                nontrivial_pairs.add(spec_hash([h, sig]))
    o = Outcome("ok", case_id=h, nontrivial=sensitive and bool(nontrivial_pairs), classes=classes + (["perm-sensitive"] if sensitive else []) +
                (["pairs-exhaustive"] if exhaustive else ["pairs-sampled"]), sample=sample)
    o.extra_nontrivial = nontrivial_pairs if sensitive else set()
    o.npairs = len(pairs)
    return o


def _run_null_perm(fr, itype, sid, d, ents):
    # perm=None would default to [0,0] in run_group for interior facets; call the kernels directly with a NULL pointer
    width = 2
    dims = [e.dim for e in fr.fd.argument_elements]
    shape = tuple(width * n for n in dims)
    w = inputs.pack_w(fr.form.coefficients(), fr.desc["original_coefficient_positions"], d, width)
    c = inputs.pack_c(fr.form.constants(), d)
    x = inputs.pack_coordinates(d.x, width)
    A = None
    for i in kernels.integrals_of(fr.desc, itype, sid):
        r = kernels.call_kernel(fr.module.ffi, fr.cform.form_integrals[i], fr.scalar_type, shape, w, c, x, entity=list(ents), perm=None, A0=A)
        A = r.A
    return A, [], 0, []


def _by_node(vec, element, Ps, cell):
    """Map a macro vector [cell0 dofs, cell1 dofs] to {(side, rounded node position, component): value}."""
    vec = np.asarray(vec).ravel()
    n = element.dim
    bs = element.block_size if type(element).__name__ == "_BlockedElement" else 1
    out = {}
    for r in range(2):
        pos = node_positions(element, Ps[r], cell)
        for k in range(n):
            node, comp = divmod(k, bs)
            key = (r, tuple(np.round(pos[node], 5)), comp)
            out[key] = out.get(key, 0.0) + float(vec[r * n + k])
    return out


@st.composite
def flag_family(draw):
    """Two dS integrals with different rules in one subdomain: one couples both sides, the other is one-sided (either order)."""
    spec = draw(strategies.form_specs(dict(P_FORMS, arities=[0], max_integrals=1, ncoef=(2, 2), element_tags=["P", "DG"], nconst=(0, 0), coef_element_tags=None)))
    X, Y = ["f", 0], ["f", 1]
    two = ["mul", ["+", X], ["-", Y]]
    one = ["mul", [draw(st.sampled_from(["+", "-"])), X], ["+", Y]] if draw(st.booleans()) else ["+", X]
    q1 = draw(st.integers(2, 4))
    q2 = draw(st.integers(2, 5).filter(lambda q: q != q1))
    ints = [{"m": "dS", "id": None, "md": {"quadrature_degree": q1}, "e": two}, {"m": "dS", "id": None, "md": {"quadrature_degree": q2}, "e": one}]
    if draw(st.booleans()):
        ints = ints[::-1]
    spec["integrals"] = ints
    spec["_features"] = sorted(set(spec.get("_features", [])) | {"flag-family"})
    return spec


def shard(shard, nshards, n, max_pairs, seed):
    res = ShardResult()
    extra = set()
    npairs = [0]

    def ev(spec):
        o = evaluate(spec, wd, max_pairs, seed * 1000 + shard)
        extra.update(getattr(o, "extra_nontrivial", ()))
        npairs[0] += getattr(o, "npairs", 0)
        return o

    def symmetric_rules_only(spec):
        # invariance under renumbering is exact only if the facet rule is mapped onto itself (with its weights) by the facet's
        # symmetries: true for the default rules, for GLL/Gauss-Jacobi on intervals and (tensor rules) on quadrilaterals, not for
        # the collapsed Gauss-Jacobi rule on triangles - there another numbering is another, equally valid, quadrature
        if spec["cell"] == "tetrahedron":
            for I in spec["integrals"]:
                I["md"].pop("quadrature_rule", None)
        return spec

    with scratch(f"vf-c03-{shard}-") as wd:
        drive(st.one_of(strategies.form_specs(P_FORMS), strategies.form_specs(P_FORMS), flag_family()).map(symmetric_rules_only), ev, n, (PROP, seed, shard), res,
              shrink_calls=20)
    res.nontrivial.update(extra)
    res.evaluations += npairs[0]
    res.counters["numbering-pairs-evaluated"] = npairs[0]
    return res


def run(tier: str) -> int:
    run_ = Run(PROP, tier, "exploration", RULE)
    n, max_pairs = (6, 64) if tier == "quick" else (thorough(12), 600)
    for part in run_shards(shard, 16, n=n, max_pairs=max_pairs, seed=verif_seed()):
        run_.merge(part)
    run_.assumptions = [
        "code 0 is the identity permutation (the only convention used); coinciding codes are found through the kernel itself",
        "the same physical functions in every numbering: polynomial fields within the element space sampled at physical node positions",
        "arguments restricted to Lagrange/DG (global dof = physical node); Piola-mapped coefficients (N1curl/N2curl/RT/BDM degree 1) by per-cell interpolation",
    ]
    return run_.finish()


def replay(doc) -> int:
    rp = doc["replay"]
    with scratch("vf-replay-") as wd:
        o = evaluate(rp["spec"], wd, 2000, 1)
    print(o.status, o.what)
    if o.status == "violation":
        print(f"VIOLATION property={PROP} replay=(replayed)")
        return 1
    return 0
