"""C09  All four scalar types compute the same form; complex mode is sesquilinear (DESIGN.md 5, C09)."""

from __future__ import annotations

import numpy as np

from .. import formcheck, inputs, kernels, refeval, specs, strategies
from ..common import Run, ShardResult, run_shards, scratch, spec_hash, verif_seed
from ..common import thorough  # noqa: E402
from ..hyp import Outcome, drive

PROP = "C09"
RULE = (
    "Hypothesis grammar-generated forms (cell and facet integrals; complex-aware grammar: conj/real/imag, complex literals, "
    "math functions of complex arguments, comparisons on real parts, inner() with the test function conjugated, second "
    "products written test-function-first) compiled for float32, float64, complex64 and complex128. Oracles: (1) real data: "
    "each of the four kernels equals the reference evaluated for that scalar type within the propagated bound at that type's "
    "unit round-off (geometry passed in the matching real type), and the kernels agree pairwise within the narrower type's "
    "bound; (2) complex data: complex kernels equal the reference run in complex arithmetic on the form lowered by UFL with "
    "complex_mode=True. Non-trivial = form has a coefficient and (a math function, or a literal not representable in float32, "
    "or a complex operator/literal); distinct by spec hash."
)
PROFILE = {"measures": ["dx", "dx", "ds", "dS", "dP"], "ids": "simple", "max_integrals": 2, "depth": 2, "maxdeg": 2, "max_qdeg": 4,
           "complex": True, "p_scheme": 0.05, "ncoef": (1, 3)}
TYPES = ["float32", "float64", "complex64", "complex128"]
INEXACT32 = {0.3, -0.7, 1.1, 1e-3, 0.1}


def nontrivial(spec):
    feats = set(spec.get("_features", []))
    has_fun = any(f.startswith("fun:") for f in feats)
    cplx = any(f in feats for f in ("lit:complex", "fun:conj", "fun:real", "fun:imag"))
    inexact = _has_inexact(spec)
    return bool(spec["coefs"]) and (has_fun or cplx or inexact)


def _has_inexact(t):
    if isinstance(t, dict):
        return any(_has_inexact(v) for v in t.values())
    if isinstance(t, list):
        if len(t) == 2 and t[0] == "lit" and isinstance(t[1], float) and t[1] in INEXACT32:
            return True
        return any(_has_inexact(v) for v in t)
    return False


def evaluate(spec, wd):
    sclean = strategies.strip_meta(spec)
    h = spec_hash(sclean)
    classes = strategies.spec_classes(spec)
    built = specs.build(sclean)
    if built.form.empty():
        return Outcome("zero-form", case_id=h, classes=classes)
    runners = {}
    for st_ in TYPES:
        try:
            runners[st_] = formcheck.FormRunner(spec, wd, scalar_type=st_, name=f"{st_}_{h}", built=built).compile()
        except kernels.Rejected as e:
            if not np.issubdtype(np.dtype(st_), np.complexfloating):
                # a form with complex literals / imag() has no real-mode meaning (UFL: "Unexpected complex value in real expression"):
                # the complex kernels are still judged against the complex reference
                classes.append(f"real-mode-rejected:{st_}")
                continue
            return Outcome("rejected", case_id=h, classes=classes + [f"rejected:{st_}:{type(e.exc).__name__}"], what=str(e)[:300])
        except kernels.CompileError as e:
            return Outcome("cc-error", case_id=h, classes=classes + [f"cc-error:{st_}"], what=e.stderr[-300:])
    sample = {"spec": sclean, "ufl": specs.to_source(sclean).split("\n")[-2][:400]}
    replay = {"spec": sclean, "ufl_source": specs.to_source(sclean)}
    cell = spec["cell"]
    checked = 0
    for complex_data in (False, True):
        dseed = (spec["data_seed"] + (15485863 if complex_data else 0)) & 0x7FFFFFFF
        types = [t for t in (TYPES if not complex_data else TYPES[2:]) if t in runners]
        ref_runner = runners["complex128"]
        for itype, sid in ref_runner.declared_groups():
            nent = formcheck.entity_count(cell, itype)
            rng = inputs.rng_for(dseed, 77)
            ent = (int(rng.integers(nent)), int(rng.integers(nent)))
            results = {}
            for st_ in types:
                fr = runners[st_]
                data = inputs.FormData(built, dseed, complex_=complex_data and fr.complex)
                try:
                    Aref, E = fr.reference(itype, sid, data, entity=ent)
                except refeval.Unstable:
                    classes.append("inputs-redrawn-unstable")
                    results = None
                    break
                except refeval.Unsupported as e:
                    classes.append("ref-unsupported:" + str(e)[:40])
                    results = None
                    break
                if Aref is None:
                    results = None
                    break
                A, problems, ncalled, _ = fr.run_group(itype, sid, data, entity=ent)
                if ncalled == 0 or problems:
                    return Outcome("violation", case_id=h, classes=classes, key=f"{PROP}:{h}", bucket=f"{PROP}:call:{st_}",
                                   what=f"{st_} kernel ({itype},{sid}): {'no kernel' if ncalled == 0 else '; '.join(problems)}", replay=replay, sample=sample)
                ok, worst, idx = formcheck.compare(A, Aref, E + refeval.LAST["nacc"] * fr.tol.u * np.abs(Aref))
                if not ok:
                    kind = "complex-data" if complex_data else "real-data"
                    return Outcome("violation", case_id=h, classes=classes, key=f"{PROP}:{h}", bucket=f"{PROP}:{kind}:{st_}:{itype}",
                                   what=f"{st_} kernel ({itype},{sid}) entity {ent} on {kind}: A{list(idx)} = {np.asarray(A)[idx] if idx else A!r} but the form "
                                        f"evaluates to {Aref[idx] if idx else Aref!r} (ratio to bound {worst:.3g})",
                                   replay=dict(replay, scalar_type=st_, complex_data=complex_data, itype=itype, subdomain_id=sid, entity=list(ent)), sample=sample)
                results[st_] = (np.asarray(A), E)
            if not results:
                continue
            checked += 1
            if not complex_data:
                # pairwise agreement at the narrower type's precision
                for a, b in (("float32", "float64"), ("complex64", "complex128"), ("float64", "complex128"), ("float32", "complex64")):
                    if a not in results or b not in results:
                        continue
                    Ea = results[a][1] + results[b][1]
                    ok, worst, idx = formcheck.compare(results[a][0].astype(np.complex128), results[b][0].astype(np.complex128), Ea)
                    if not ok:
                        return Outcome("violation", case_id=h, classes=classes, key=f"{PROP}:{h}", bucket=f"{PROP}:pairwise:{a}:{b}",
                                       what=f"{a} and {b} kernels of ({itype},{sid}) disagree on real data beyond the narrower type's bound (ratio {worst:.3g})",
                                       replay=replay, sample=sample)
    if checked == 0:
        return Outcome("inconclusive", case_id=h, classes=classes)
    return Outcome("ok", case_id=h, nontrivial=nontrivial(spec), classes=classes, sample=sample)


def shard(shard, nshards, n, tier, seed):
    res = ShardResult()
    with scratch(f"vf-c09-{shard}-") as wd:
        drive(strategies.forms(PROFILE, grammar=3, templates=1), lambda s: evaluate(s, wd), n, (PROP, seed, shard), res, shrink_calls=30)
    return res


def run(tier: str) -> int:
    run_ = Run(PROP, tier, "exploration", RULE)
    n = 5 if tier == "quick" else thorough(40)
    for part in run_shards(shard, 16, n=n, tier=tier, seed=verif_seed()):
        run_.merge(part)
    run_.assumptions = [
        "UFL's complex_mode lowering defines the sesquilinear convention (test function conjugated)",
        "numpy complex arithmetic / libm agree with C99 complex functions to a few ulp on the generated (branch-cut-free) domain",
        "all input values are float32-representable so the same numbers reach all four kernels",
    ]
    return run_.finish()


def replay(doc) -> int:
    rp = doc["replay"]
    with scratch("vf-replay-") as wd:
        o = evaluate(rp["spec"], wd)
    print(o.status, o.what)
    if o.status == "violation":
        print(f"VIOLATION property={PROP} replay=(replayed)")
        return 1
    return 0
