"""C18  The numba backend computes the same tensors as the C backend (DESIGN.md 5, C18)."""

from __future__ import annotations

import os

import math
import sys
import types

import numpy as np
import ufl
from hypothesis import strategies as st

from .. import formcheck, inputs, kernels, refeval, specs, strategies
from ..common import Run, ShardResult, run_shards, scratch, spec_hash, verif_seed
from ..common import thorough  # noqa: E402
from ..hyp import Outcome, drive

PROP = "C18"
RULE = (
    "Hypothesis-generated forms (cell / exterior / interior facet / vertex integrals, several ids, math functions, conditionals "
    "with Not/And/Or, min/max, atan2, mixed and blocked elements, degree <= 2) and expressions, generated twice: language C "
    "(compiled, descriptor read through cffi) and language numba. The numba module must compile() as Python and import with a "
    "shim `numba` whose carray(ptr, n) is an exact-size view of the buffer the harness passes (so an undersized declaration raises "
    "IndexError); its kernels are run in plain Python on the same inputs. Oracles: tensors equal the C kernel's within rounding; "
    "descriptor fields (rank, coefficient count/positions/names, constant ranks/shapes/names, element hashes, ids, offsets, "
    "per-integral enabled flags / permutation flag / coordinate hash / domain tag; expression points, shape, counts) equal the C "
    "descriptor's. A sample of the modules is also compiled by numba itself (cfunc, nopython) and called through the C pointer. Non-trivial = kernel contains a math function, a condition, or is a facet kernel; distinct by spec hash."
)
P_FORMS = {"cells": ["interval", "triangle", "quadrilateral", "tetrahedron", "prism"], "measures": ["dx", "dx", "ds", "dS", "dP"], "ids": "rich",
           "max_integrals": 3, "depth": 2, "maxdeg": 2, "max_qdeg": 2, "p_scheme": 0.0, "ncoef": (0, 2)}


def scipy_available() -> bool:
    """scipy (needed by generated numba modules that use Bessel functions) is installed into /verif/.deps by setup_cmd."""
    from ..common import VERIF

    deps = str(VERIF / ".deps")
    if deps not in sys.path:
        sys.path.append(deps)
    try:
        import scipy.special  # noqa: F401

        return True
    except Exception:
        return False


def make_shim():
    shim = types.ModuleType("numba")

    def carray(ptr, shape, dtype=None):
        if ptr is None:
            return None
        n = int(np.prod(shape)) if isinstance(shape, tuple) else int(shape)
        a = ptr.reshape(-1)
        return a[:n] if a.size >= n else a

    shim.carray = carray
    shim.cfunc = lambda *a, **k: (lambda f: f)
    shim.types = types.SimpleNamespace()
    return shim


def load_numba_module(text):
    ns = {"__name__": "vf_generated_numba"}
    old = sys.modules.get("numba")
    sys.modules["numba"] = make_shim()
    try:
        code = compile(text, "<numba module>", "exec")
        exec(code, ns)
    finally:
        if old is not None:
            sys.modules["numba"] = old
        else:
            sys.modules.pop("numba", None)
    return ns


def _none_list(x):
    return [] if x is None else list(x)


def numba_form_descriptor(F):
    n = len(_none_list(F.form_integrals))
    d = {
        "rank": int(F.rank),
        "num_coefficients": int(F.num_coefficients),
        "num_constants": int(F.num_constants),
        "original_coefficient_positions": [int(i) for i in _none_list(F.original_coefficient_positions)],
        "coefficient_names": _none_list(F.coefficient_name_map),
        "constant_names": _none_list(F.constant_name_map),
        "constant_ranks": [int(i) for i in _none_list(F.constant_ranks)],
        "constant_shapes": [[] if s is None else [int(i) for i in s] for s in _none_list(F.constant_shapes)],
        "offsets": [int(i) for i in F.form_integral_offsets][:6],
        "ids": [int(i) for i in _none_list(F.form_integral_ids)],
        "finite_element_hashes": [int(i) for i in _none_list(F.finite_element_hashes)],
        "integrals": [{"enabled_coefficients": [bool(e) for e in I.enabled_coefficients], "needs_facet_permutations": bool(I.needs_facet_permutations),
                       "coordinate_element_hash": int(I.coordinate_element_hash), "domain": int(I.domain)} for I in _none_list(F.form_integrals)],
    }
    return d


def call_numba_kernel(itg, scalar_type, shape, w, c, x, entity, perm, A0=None):
    sdt = np.dtype(scalar_type)
    rdt = kernels.real_dtype(scalar_type)
    n = int(np.prod(shape)) if shape else 1
    A = np.zeros(n, dtype=sdt) if A0 is None else np.asarray(A0, dtype=sdt).ravel().copy()
    # the generated function runs in plain Python here: large facet kernels can take minutes; budget -> inconclusive (kernels.Timeout)
    with np.errstate(all="ignore"), kernels.time_limit(float(os.environ.get("VF_NUMBA_PY_TIMEOUT", "60"))):
        itg.tabulate_tensor(A, np.asarray(w, dtype=sdt), np.asarray(c, dtype=sdt), np.asarray(x, dtype=rdt),
                            None if entity is None else np.asarray(entity, dtype=np.intc), None if perm is None else np.asarray(perm, dtype=np.uint8), None)
    return A.reshape(shape)


def _as_c(a):
    import ctypes

    return a.ctypes.data_as(ctypes.POINTER(np.ctypeslib.as_ctypes_type(a.dtype)))


def real_numba_group(text, name, fr, itype, sid, ent, data, st_):
    """Compile the kernels of (itype, sid) with the real numba (cfunc, nopython) and run them; returns A or raises."""
    import numba

    from ffcx.codegeneration.utils import dtype_to_scalar_dtype, numba_ufcx_kernel_signature

    ns = {"__name__": "vf_generated_numba_real"}
    exec(compile(text, "<numba module>", "exec"), ns)
    F = ns[name]
    sdt = np.dtype(st_)
    rdt = np.dtype(dtype_to_scalar_dtype(sdt.type))
    sig = numba_ufcx_kernel_signature(sdt.type, rdt.type)
    width = 2 if itype == "interior_facet" else 1
    dims = [e.dim for e in fr.fd.argument_elements]
    shape = tuple(width * n for n in dims)
    w = np.asarray(inputs.pack_w(fr.form.coefficients(), fr.desc["original_coefficient_positions"], data, width), dtype=sdt)
    c = np.asarray(inputs.pack_c(fr.form.constants(), data), dtype=sdt)
    x = np.asarray(inputs.pack_coordinates(data.x, width), dtype=rdt)
    pad = np.zeros(1, dtype=sdt)
    A = np.zeros(int(np.prod(shape)) if shape else 1, dtype=sdt)
    e_ = np.asarray(list(ent[:width]) if itype != "cell" else [0], dtype=np.intc)
    p_ = np.zeros(2, dtype=np.uint8)
    tag = formcheck.entity_celltype_tag(fr.spec["cell"], itype, ent[0])
    n = 0
    for i in kernels.integrals_of(fr.desc, itype, sid):
        if fr.desc["integrals"][i]["domain"] != tag:
            continue
        k = numba.cfunc(sig, nopython=True)(F.form_integrals[i].tabulate_tensor)
        k.ctypes(_as_c(A), _as_c(w if w.size else pad), _as_c(c if c.size else pad), _as_c(x), _as_c(e_), _as_c(p_), 0)
        n += 1
    return (A.reshape(shape) if shape else A), n


def option_sequence(spec, built):
    """Option sets the form is generated with, one after the other in this process (the first is always the default set)."""
    k = spec["data_seed"] % 6
    seq = [{}]
    if k == 1:
        seq.append({"table_rtol": 1e-3})
    elif k == 2:
        seq.append({"sum_factorization": True})
    elif k in (3, 4):
        args = built.form.arguments()
        if len(args) == 2 and args[0].ufl_function_space() == args[1].ufl_function_space():
            seq.append({"part": "diagonal"})
            if k == 4:
                seq.reverse()
        else:
            seq.append({"table_atol": 1e-5})
    return seq


def evaluate_form(spec, wd, real_numba=False):
    """C and numba modules of one form, for one or two option sets generated one after the other in this process."""
    sclean = strategies.strip_meta(spec)
    try:
        built = specs.build(sclean)
    except Exception:  # noqa: BLE001
        built = None
    seq = option_sequence(spec, built) if built is not None and not real_numba else [{}]
    last = None
    for n, opts in enumerate(seq):
        o = _evaluate_form(spec, wd, real_numba, opts, n)
        if o.status == "violation":
            return o
        if opts and o.status in ("rejected", "zero-form", "inconclusive"):
            continue  # the option does not apply to this form / the C backend rejects it as well
        if last is None or o.status == "ok":
            last = o
        if not opts and o.status != "ok":
            return o
    if len(seq) > 1 and last is not None:
        last.classes = list(last.classes) + ["option-sequence:" + "+".join(",".join(sorted(o_)) or "default" for o_ in seq)]
    return last


def _evaluate_form(spec, wd, real_numba, opts, step):
    sclean = strategies.strip_meta(spec)
    h = spec_hash(sclean)
    classes = strategies.spec_classes(spec)
    st_ = ["float64", "float64", "float32"][spec["data_seed"] % 3]
    replay = {"kind": "form", "spec": sclean, "ufl_source": specs.to_source(sclean), "scalar_type": st_, "options": opts, "step": step}
    diag = opts.get("part") == "diagonal"
    if opts:
        classes = classes + ["options:" + ",".join(sorted(opts))]
    sample = {"spec": sclean}

    def viol(kind, what):
        return Outcome("violation", case_id=h, classes=classes, key=f"{PROP}:{kind}:{h}", bucket=f"{PROP}:{kind}", what=what, replay=replay, sample=sample)

    try:
        fr = formcheck.FormRunner(spec, wd, scalar_type=st_, options=opts, name=f"c{h}_{step}")
        if fr.is_zero_form():
            return Outcome("zero-form", case_id=h, classes=classes)
        fr.compile()
    except (kernels.Rejected, kernels.CompileError) as e:
        return Outcome("rejected", case_id=h, classes=classes, what=str(e)[:200])
    try:
        text, _, names = kernels.generate_code([fr.form], dict(opts, scalar_type=st_, language="numba"))
    except Exception as e:
        return viol("numba-rejects", f"the C backend accepts the form (options {opts}) but language='numba' raises {type(e).__name__}: {str(e)[:300]}")
    try:
        ns = load_numba_module(text)
    except SyntaxError as e:
        return viol("invalid-python", f"generated numba module is not valid Python: {e}")
    except Exception as e:
        return viol("import-error", f"generated numba module fails to import: {type(e).__name__}: {str(e)[:300]}")
    F = ns.get(names[0][1])
    if F is None:
        return viol("missing-object", f"numba module does not define {names[0][1]}")
    dn = numba_form_descriptor(F)
    dc = {k: fr.desc[k] for k in dn}
    for k in dn:
        if dn[k] != dc[k]:
            return viol(f"descriptor:{k}", f"descriptor field {k}: numba {dn[k]} != C {dc[k]}")
    cell = spec["cell"]
    nontrivial = False
    feats = set(spec.get("_features", []))
    checked = 0
    for itype, sid in fr.declared_groups():
        width = 2 if itype == "interior_facet" else 1
        dims = [e.dim for e in fr.fd.argument_elements]
        shape = tuple(width * n for n in (dims[:1] if diag else dims))
        if int(np.prod(shape)) > 400:
            continue
        nent = formcheck.entity_count(cell, itype)
        data = inputs.FormData(fr.built, spec["data_seed"])
        ent = (nent - 1, 0)
        A_c, problems, ncalled, idxs = fr.run_group(itype, sid, data, entity=ent, diagonal=diag)
        if A_c is None:
            continue
        w = inputs.pack_w(fr.form.coefficients(), fr.desc["original_coefficient_positions"], data, width)
        c = inputs.pack_c(fr.form.constants(), data)
        x = inputs.pack_coordinates(data.x, width)
        tag = formcheck.entity_celltype_tag(cell, itype, ent[0])
        A_n = None
        for i in idxs:
            if fr.desc["integrals"][i]["domain"] != tag:
                continue
            I = F.form_integrals[i]
            e_ = None if itype == "cell" else list(ent[:width])
            p_ = [0, 0] if itype == "interior_facet" else None
            try:
                A_n = call_numba_kernel(I, st_, shape, w, c, x, e_, p_, A0=A_n)
            except IndexError as e:
                return viol("undersized-array", f"numba kernel ({itype},{sid}) indexes outside an array it declared with numba.carray (sizes from tensor_sizes): {e}")
            except (AttributeError, NameError, TypeError) as e:
                return viol("runtime-error", f"numba kernel ({itype},{sid}) fails at run time: {type(e).__name__}: {str(e)[:300]}")
        if A_n is None:
            continue
        scale = float(np.max(np.abs(np.asarray(A_c)))) + 1e-30
        u = float(np.finfo(kernels.real_dtype(st_)).eps)
        diff = float(np.nanmax(np.abs(np.asarray(A_c).astype(np.complex128) - np.asarray(A_n).astype(np.complex128))))
        if not diff <= 2e3 * u * (scale + 0.05):
            return viol("value", f"options {opts} (generation {step + 1} of this form in the process): ({itype},{sid}) entity {ent}: numba and C kernels differ by {diff:.3e} at scale {scale:.3e} ({st_})")
        if real_numba and "scipy.special.jn(" not in text and "scipy.special.yn(" not in text and not fr.complex:
            # the generated function as numba itself compiles it (cfunc, nopython), called through its C pointer
            try:
                # numba's own front end is quadratic in the size of table literals: large kernels take many minutes -> budget
                with kernels.time_limit(float(os.environ.get("VF_NUMBA_COMPILE_TIMEOUT", "150"))):
                    A_r, nk = real_numba_group(text, names[0][1], fr, itype, sid, ent, data, st_)
            except Exception as e:  # numba typing / lowering errors
                return viol("numba-compile", f"numba.cfunc(nopython=True) cannot compile kernel ({itype},{sid}) of a form the C backend accepts: "
                            f"{type(e).__name__}: {str(e)[:400]}")
            diff_r = float(np.nanmax(np.abs(np.asarray(A_c).astype(np.complex128) - np.asarray(A_r).astype(np.complex128))))
            if not diff_r <= 2e3 * u * (scale + 0.05):
                return viol("value-real-numba", f"({itype},{sid}) entity {ent}: numba-compiled kernel and C kernel differ by {diff_r:.3e} at scale {scale:.3e} ({st_})")
            classes.append("real-numba-kernels-compiled")
        checked += 1
        if itype != "cell" or any(f.startswith(("fun:", "op:cond", "op:max", "op:min")) for f in feats):
            nontrivial = True
    if not checked:
        return Outcome("inconclusive", case_id=h, classes=classes)
    return Outcome("ok", case_id=h, nontrivial=nontrivial, classes=classes, sample=sample)


def evaluate_expr(spec, wd):
    sclean = strategies.strip_meta(spec)
    h = spec_hash(sclean)
    classes = strategies.expr_classes(spec)
    st_ = "float64"
    built = specs.build(sclean)
    expr, pts = built.obj
    replay = {"kind": "expr", "spec": sclean, "ufl_source": specs.to_source(sclean)}

    def viol(kind, what):
        return Outcome("violation", case_id=h, classes=classes, key=f"{PROP}:expr-{kind}:{h}", bucket=f"{PROP}:expr-{kind}", what=what, replay=replay, sample={"spec": sclean})

    try:
        mod = kernels.compile_module([(expr, pts)], {"scalar_type": st_}, workdir=wd, name="e" + h)
    except (kernels.Rejected, kernels.CompileError) as e:
        return Outcome("rejected", case_id=h, classes=classes, what=str(e)[:200])
    dc = kernels.read_expression_descriptor(mod.ffi, mod.objects[0])
    try:
        text, _, names = kernels.generate_code([(expr, pts)], {"scalar_type": st_, "language": "numba"})
        ns = load_numba_module(text)
    except SyntaxError as e:
        return viol("invalid-python", f"generated numba module is not valid Python: {e}")
    except Exception as e:
        return viol("numba-rejects", f"language='numba' fails for an expression the C backend accepts: {type(e).__name__}: {str(e)[:300]}")
    E = ns.get(names[0][1])
    if E is None:
        return viol("missing-object", f"numba module does not define {names[0][1]}")
    dn = {
        "num_coefficients": int(E.num_coefficients), "num_constants": int(E.num_constants), "num_points": int(E.num_points),
        "entity_dimension": int(E.entity_dimension), "num_components": int(E.num_components), "rank": int(E.rank),
        "coordinate_element_hash": int(E.coordinate_element_hash),
        "original_coefficient_positions": [int(i) for i in _none_list(E.original_coefficient_positions)],
        "coefficient_names": _none_list(E.coefficient_names), "constant_names": _none_list(E.constant_names),
        "points": [float(v) for v in np.asarray(E.points, dtype=float).ravel()], "value_shape": [int(i) for i in _none_list(E.value_shape)],
    }
    for k in dn:
        if dn[k] != dc[k]:
            return viol(f"descriptor:{k}", f"expression descriptor field {k}: numba {dn[k]} != C {dc[k]}")
    low = refeval.lower_expression(expr, st_)
    args = ufl.algorithms.extract_arguments(low)
    ndofs = args[0].ufl_function_space().ufl_element().dim if args else None
    ncomp = int(np.prod(expr.ufl_shape)) if expr.ufl_shape else 1
    shape = (pts.shape[0], ncomp) + ((ndofs,) if ndofs else ())
    data = inputs.FormData(built, spec["data_seed"])
    ocoefs = ufl.algorithms.extract_coefficients(expr)
    oconsts = ufl.algorithms.analysis.extract_constants(expr)
    w = inputs.pack_w(ocoefs, dc["original_coefficient_positions"], data, 1)
    c = inputs.pack_c(oconsts[: dc["num_constants"]], data)
    x = inputs.pack_coordinates(data.x, 1)
    facet = bool(spec.get("facet"))
    ent, perm = ([0], [0]) if facet else (None, None)
    r = kernels.call_kernel(mod.ffi, mod.objects[0], st_, shape, w, c, x, entity=ent, perm=perm)
    try:
        A_n = call_numba_kernel(E, st_, shape, w, c, x, ent, perm)
    except IndexError as e:
        return viol("undersized-array", f"numba expression kernel indexes outside a declared array: {e}")
    except (AttributeError, NameError, TypeError) as e:
        return viol("runtime-error", f"numba expression kernel fails at run time: {type(e).__name__}: {str(e)[:300]}")
    scale = float(np.max(np.abs(r.A))) + 1e-30
    diff = float(np.nanmax(np.abs(np.asarray(r.A) - np.asarray(A_n))))
    if not diff <= 1e-12 * (scale + 0.05):
        return viol("value", f"numba and C expression kernels differ by {diff:.3e} at scale {scale:.3e}")
    return Outcome("ok", case_id=h, nontrivial=True, classes=classes, sample={"spec": sclean})


def shard(shard, nshards, n, seed, n_real=1):
    res = ShardResult()
    have_scipy = scipy_available()
    res.count("bessel-forms-generated" if have_scipy else "bessel-forms-excluded:scipy-not-importable")
    with scratch(f"vf-c18-{shard}-") as wd:
        drive(strategies.forms(dict(P_FORMS, bessel=have_scipy, int_base_pow=True)), lambda s: evaluate_form(s, wd), n, (PROP, seed, shard, "forms"), res, shrink_calls=30)
        # a sample through numba's own compiler (about 5 s per kernel)
        small = dict(P_FORMS, bessel=False, max_integrals=2, cells=["interval", "triangle", "quadrilateral", "tetrahedron"], nonaffine=0.15, maxdeg=2)
        drive(strategies.form_specs(small), lambda s: evaluate_form(s, wd, real_numba=True), n_real, (PROP, seed, shard, "real-numba"), res, shrink_calls=4)
        drive(strategies.expr_specs({"maxdeg": 2, "int_base_pow": True}), lambda s: evaluate_expr(s, wd), max(1, n // 3), (PROP, seed, shard, "exprs"), res, shrink_calls=30)
    return res


def run(tier: str) -> int:
    run_ = Run(PROP, tier, "exploration", RULE)
    n = 6 if tier == "quick" else thorough(50)
    for part in run_shards(shard, 16, n=n, seed=verif_seed(), n_real=1 if tier == "quick" else 4):
        run_.merge(part)
    run_.assumptions = [
        "kernels are executed in plain Python with a numba shim (carray = exact-size numpy view); in addition a sample (1 form per shard quick, 8 thorough) "
        "is compiled with the real numba.cfunc(nopython=True) and called through its C pointer (float32/float64, no Bessel functions)",
        "C kernels are the reference (they are judged against the independent evaluator by C01/C02/C04)",
    ]
    return run_.finish()


def replay(doc) -> int:
    rp = doc["replay"]
    with scratch("vf-replay-") as wd:
        o = evaluate_expr(rp["spec"], wd) if rp.get("kind") == "expr" else evaluate_form(rp["spec"], wd)
    print(o.status, o.what)
    if o.status == "violation":
        print(f"VIOLATION property={PROP} replay=(replayed)")
        return 1
    return 0
