"""C05  Coefficient/constant packing contract and enabled_coefficients are truthful (DESIGN.md 5, C05)."""

from __future__ import annotations

import numpy as np

from .. import formcheck, inputs, kernels, strategies
from ..common import Run, ShardResult, run_shards, scratch, spec_hash, verif_seed
from ..common import thorough  # noqa: E402
from ..hyp import Outcome, drive

PROP = "C05"
RULE = (
    "Hypothesis-generated forms with 2-5 coefficients and 1-3 constants (scalar/vector/tensor), declared in shuffled order, "
    "integrals of several types/ids using different coefficient subsets, Gateaux derivatives that make coefficients vanish, "
    "interior facets (double width). Oracle: (1) assembler model - w and c are packed only from the compiled descriptor "
    "(num_coefficients, original_coefficient_positions, constant order/shapes) and the original form's element dimensions, and "
    "the kernel must then equal the reference evaluator; (2) every coefficient slot whose enabled_coefficients flag is false is "
    "overwritten with NaN and the output must be bit-identical. Non-trivial = a coefficient dropped from the compiled form or "
    "a false flag in some integral; distinct by spec hash."
)
PROFILE = {"measures": ["dx", "dx", "ds", "dS"], "ids": "few", "p_degree": 0.85, "max_integrals": 3, "depth": 2, "maxdeg": 2, "max_qdeg": 3,
           "ncoef": (2, 5), "nconst": (1, 3), "p_derivative": 0.5, "shuffle_decl": True, "arities": [0, 1, 1, 2], "p_scheme": 0.0,
           "p_vertex": 0.0}
ITYPES = ("cell", "exterior_facet", "interior_facet")


def evaluate(spec, wd):
    st_ = ["float64", "float64", "float32"][spec["data_seed"] % 3]
    state = {}

    def extra(fr):
        state["fr"] = fr
        return None

    o = formcheck.evaluate_form_spec(spec, wd, itypes=ITYPES, scalar_type=st_, prop=PROP, n_inputs=1, extra_check=extra,
                                     nontrivial=lambda s: False)
    if o.status != "ok" or "fr" not in state:
        return o
    fr = state["fr"]
    d = fr.desc
    n_orig = len(fr.form.coefficients())
    dropped = n_orig - d["num_coefficients"]
    any_false = any(not e for itg in d["integrals"] for e in itg["enabled_coefficients"])
    o.classes.append(f"dropped:{min(dropped, 3)}")
    if any_false:
        o.classes.append("has-disabled-flag")
    # poison test
    cell = spec["cell"]
    data = inputs.FormData(fr.built, spec.get("data_seed", 0), complex_=fr.complex)
    for itype, sid in fr.declared_groups():
        if itype not in ITYPES:
            continue
        nent = formcheck.entity_count(cell, itype)
        ent = (nent - 1, 0)
        A1, p1, n1, idxs = fr.run_group(itype, sid, data, entity=ent)
        A2, p2, n2, _ = fr.run_group(itype, sid, data, entity=ent, poison_disabled=True)
        if A1 is None:
            continue
        if np.asarray(A1).tobytes() != np.asarray(A2).tobytes():
            flags = [d["integrals"][i]["enabled_coefficients"] for i in idxs]
            return Outcome("violation", case_id=o.case_id, classes=o.classes, key=f"{PROP}:flags:{o.case_id}", bucket=f"{PROP}:enabled-coefficients:{itype}",
                           what=f"kernel(s) under ({itype},{sid}) have enabled_coefficients {flags} but the result changes when the disabled "
                                f"coefficients' slots in w are overwritten with NaN (max |A| {np.nanmax(np.abs(A1)):.3e} -> {np.asarray(A2).ravel()[:4]})",
                           replay=dict(o.sample or {}, scalar_type=st_), sample=o.sample)
    o.nontrivial = dropped > 0 or any_false
    return o


def shard(shard, nshards, n, tier, seed):
    res = ShardResult()
    with scratch(f"vf-c05-{shard}-") as wd:
        drive(strategies.forms(PROFILE, grammar=5), lambda s: evaluate(s, wd), n, (PROP, seed, shard), res, shrink_calls=40)
    return res


def run(tier: str) -> int:
    run_ = Run(PROP, tier, "exploration", RULE)
    n = 10 if tier == "quick" else thorough(70)
    for part in run_shards(shard, 16, n=n, tier=tier, seed=verif_seed()):
        run_.merge(part)
    run_.assumptions = [
        "UFL's reduced_coefficients/original positions define which coefficients survive; element dims come from the original form",
        "NaN poisoning: any read of a disabled slot that reaches A changes its bytes",
    ]
    return run_.finish()


def replay(doc) -> int:
    rp = doc["replay"]
    with scratch("vf-replay-") as wd:
        o = evaluate(rp["spec"], wd)
    print(o.status, o.what)
    if o.status == "violation":
        print(f"VIOLATION property={PROP} replay=(replayed)")
        return 1
    return 0
