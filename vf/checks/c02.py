"""C02  Facet and vertex kernels integrate over the indicated local entity (DESIGN.md section 5, C02)."""

from __future__ import annotations

from .. import formcheck, specs, strategies
from ..common import Run, ShardResult, run_shards, scratch, verif_seed
from ..common import thorough  # noqa: E402
from ..hyp import drive

PROP = "C02"
RULE = (
    "Hypothesis grammar-generated ds/dS/dP forms on every cell type (prisms: ds with triangle and quadrilateral "
    "facets), integrands depending on the entity (FacetNormal, FacetArea, x, traces of Piola/DG elements, "
    "facet edge lengths, avg/jump/'+'/'-'), unrelated data and geometry on the two cells of an interior facet; "
    "all local entity indices (sampled pairs when > 12) x 2 input sets; oracle: reference evaluator with the "
    "documented macro layout. Non-trivial = some entity index != 0 exercised and the form has an argument or "
    "coefficient; for dS both restrictions present; distinct by spec hash."
)

PROFILE = {"bessel": True, "measures": ["ds", "dS", "dP"], "ids": "simple", "max_integrals": 2, "p_scheme": 0.05}


def nontrivial(spec):
    feats = set(spec.get("_features", []))
    has_fn = bool(spec["coefs"]) or bool(spec["args"])
    ms = {i["m"] for i in spec["integrals"]}
    if "dS" in ms and not ({"restr:+", "restr:-", "restr:avg", "restr:jump", "restr:jumpn"} & feats):
        return False
    return has_fn


def geometry_family():
    """Template layer: every geometric quantity x restriction x cell x measure once (enumerated, not sampled)."""
    out = []
    for cell in ("interval", "triangle", "quadrilateral", "tetrahedron", "hexahedron"):
        tdim = specs.TDIM[cell]
        for cdeg in (1, 2):
            for m in ("ds", "dS"):
                base = {"kind": "form", "cell": cell, "gdim": tdim, "cdeg": cdeg, "elements": [["el", "P", 1, {}]], "args": [], "coefs": [0], "consts": [],
                        "integrals": [], "data_seed": 1234 + 17 * tdim + cdeg}
                g = strategies.G(None, dict(base), {})
                for name, _ in strategies.geo_atoms(g, m):
                    shape = specs.tree_shape(["geo", name], g.ns)
                    comp = [s - 1 for s in shape]
                    atom = ["idx", ["geo", name]] + comp if shape else ["geo", name]
                    for r in (("+", "-") if m == "dS" else (None,)):
                        a = [r, atom] if r else atom
                        f = [r, ["f", 0]] if r else ["f", 0]
                        spec = dict(base, integrals=[{"m": m, "id": None, "md": {"quadrature_degree": 2}, "e": ["mul", a, f]}])
                        spec["_tags"] = ["P"]
                        spec["_features"] = ["geo:" + name, "template"] + (["restr:" + r] if r else [])
                        out.append(spec)
    return out


def shard(shard, nshards, n, tier, seed):
    res = ShardResult()
    with scratch(f"vf-c02-{shard}-") as wd:
        types = ["float64", "float64", "float32"]
        fam = geometry_family()
        for k, spec in enumerate(fam):
            if k % nshards != shard:
                continue
            from ..common import leave_crumb

            leave_crumb(spec)
            o = formcheck.evaluate_form_spec(spec, wd, itypes=("exterior_facet", "interior_facet"), scalar_type="float64", prop=PROP,
                                             all_entities=True, nontrivial=lambda s: True, n_inputs=1)
            res.case(o.case_id, o.status == "ok", sample=None, classes=o.classes + ["template-family"])
            res.count("status:" + o.status)
            if o.status == "violation":
                res.fail(o.key, o.what, o.replay, bucket=o.bucket)

        def ev(spec, st):
            o = formcheck.evaluate_form_spec(spec, wd, itypes=("exterior_facet", "interior_facet", "vertex"),
                                             scalar_type=st, prop=PROP, all_entities=True, nontrivial=nontrivial)
            o.classes.append("scalar:" + st)
            return o

        nreal = max(1, int(n * 0.8))
        drive(strategies.forms(PROFILE), lambda s: ev(s, types[s["data_seed"] % 3]), nreal, (PROP, seed, shard, "real"), res)
        drive(strategies.form_specs(dict(PROFILE, complex=True)), lambda s: ev(s, ["complex128", "complex64"][s["data_seed"] % 2]),
              max(1, n - nreal), (PROP, seed, shard, "cplx"), res)
    return res


def run(tier: str) -> int:
    run_ = Run(PROP, tier, "exploration", RULE)
    n = 8 if tier == "quick" else thorough(80)
    for part in run_shards(shard, 16, n=n, tier=tier, seed=verif_seed()):
        run_.merge(part)
    run_.assumptions = [
        "UFL compute_form_data (restriction propagation, facet scaling, normals) and basix reference geometry are trusted",
        "quadrature_permutation = (0,0) for interior facets here; other codes are the subject of C03",
        "tolerance = 8 x propagated first-order error bound",
    ]
    return run_.finish()


def replay(doc) -> int:
    rp = doc["replay"]
    with scratch("vf-replay-") as wd:
        o = formcheck.evaluate_form_spec(rp["spec"], wd, itypes=("exterior_facet", "interior_facet", "vertex"),
                                         scalar_type=rp["scalar_type"], options=rp.get("options"), prop=PROP,
                                         all_entities=True, nontrivial=nontrivial)
    print(o.status, o.what)
    if o.status == "violation":
        print(f"VIOLATION property={PROP} replay=(replayed)")
        return 1
    return 0
