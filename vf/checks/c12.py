"""C12  Code generation is deterministic and history-independent (DESIGN.md 5, C12)."""

from __future__ import annotations

import difflib
import re

from hypothesis import strategies as st

from .. import procs, specs, strategies
from ..common import Run, ShardResult, run_shards, scratch, spec_hash, verif_seed
from ..common import thorough  # noqa: E402
from ..hyp import Outcome, drive

PROP = "C12"
RULE = (
    "Generated UFL objects (forms of all integral types incl. prisms, interior facets, several rules, mixed elements; and "
    "expressions) x generated process histories executed in a fresh child interpreter before the target compilation: creation "
    "of unrelated meshes/spaces/coefficients (advancing UFL counters), compilation of 0-2 other generated specs in the same "
    "process (also with sum_factorization / other scalar type), the very same target objects compiled earlier with another scalar type or other options, the target itself (rebuilt) compiled earlier with other options (table tolerances, scalar type, part), "
    "calls of get_options with other values; the target is compiled with default, loose or (almost) exact table tolerances; two families - target "
    "objects created before the history (equal counters: isolates state leaks and hash-seed dependence) or after it (counters "
    "differ); x PYTHONHASHSEED drawn from a generated set; x language C / numba. Oracle: the text returned by "
    "compile_ufl_objects is byte-identical to the text of the empty-history, hash-seed-0 child. Non-trivial = history with >= 1 "
    "step and hash seed != 0, and the target has an argument or coefficient; distinct by hash of (spec, variant)."
)
P_FORMS = {"measures": ["dx", "dx", "ds", "dS", "dP"], "ids": "few", "max_integrals": 3, "depth": 2, "maxdeg": 2, "max_qdeg": 4}
P_OTHER = {"measures": ["dx", "ds"], "max_integrals": 2, "depth": 1, "maxdeg": 2}


P_TP = {"cells": ["quadrilateral", "hexahedron"], "measures": ["dx"], "tp": True, "maxdeg": 2, "max_integrals": 2, "depth": 1, "manifold": 0.0,
        "min_qdeg": 2, "max_qdeg": 3, "p_scheme": 0.0, "p_vertex": 0.0, "ncoef": (0, 1)}


def sibling_spec(target):
    """A small form on the target's cell with the target's quadrature metadata but a macro (iso) test function: it requests
    the same (cell, degree, scheme) rules with another polyset."""
    if target.get("kind", "form") != "form" or target["cell"] == "prism":
        return None
    ints = [{"m": "dx", "id": None, "md": dict(i["md"]), "e": ["v"]} for i in target["integrals"] if i["m"] == "dx" and i["md"].get("quadrature_rule", "default") != "vertex"]
    if not ints:
        return None
    return {"kind": "form", "cell": target["cell"], "gdim": target["gdim"], "cdeg": target["cdeg"], "elements": [["el", "iso", 1, {}]], "args": [0], "coefs": [],
            "consts": [], "integrals": ints[:2]}


@st.composite
def histories(draw, target=None, tp=False):
    steps = []
    for _ in range(draw(st.integers(0, 3))):
        k = draw(st.sampled_from(["objects", "compile", "options", "sibling", "tp", "self", "self", "same-objects", "same-objects", "same-objects"]))
        if k == "same-objects" and draw(st.booleans()):
            # another generated form compiled earlier with the very same options *object* as the target (an API caller reusing one
            # options dictionary): options must not be modified by a compilation
            prof = dict(P_TP, measures=["dx", "ds"]) if tp else dict(P_OTHER, measures=["dx", "ds", "dS"])
            steps.append(["compile-shared", strategies.strip_meta(draw(strategies.form_specs(prof)))])
            continue
        if k == "same-objects":
            # the same UFL objects (not a rebuilt copy) compiled earlier with other options
            opts = draw(st.sampled_from([{"scalar_type": "complex128"}, {"scalar_type": "float32"}, {"scalar_type": "float64"}, {"table_rtol": 1e-3, "table_atol": 1e-3},
                                         {"part": "diagonal"}, {}]))
            if tp:
                opts = dict(opts, sum_factorization=draw(st.booleans()))
            steps.append(["compile-target", opts])
            continue
        if k == "self":
            # the target itself (rebuilt from its spec) compiled earlier in the same process with other options: every cache keyed
            # by element / points / rule is hit, so state shared between compilations shows up
            if target is None:
                k = "objects"
            else:
                opts = draw(st.sampled_from([{}, {"table_rtol": 1e-3, "table_atol": 1e-3}, {"table_rtol": 1e-2, "table_atol": 1e-5}, {"scalar_type": "float32"},
                                             {"scalar_type": "complex128"}, {"part": "diagonal"}]))
                if tp:
                    opts = dict(opts, sum_factorization=draw(st.booleans()))
                steps.append(["compile", target, opts])
                continue
        if k == "sibling":
            sib = sibling_spec(target) if target is not None else None
            if sib is None:
                k = "objects"
            else:
                steps.append(["compile", sib, {}])
                continue
        if k == "tp":
            if not tp:
                k = "compile"
            else:
                steps.append(["compile", strategies.strip_meta(draw(strategies.form_specs(P_TP))), {"sum_factorization": True}])
                continue
        if k == "objects":
            steps.append(["objects", draw(st.integers(1, 7))])
        elif k == "compile":
            other = draw(strategies.form_specs(P_OTHER))
            opts = draw(st.sampled_from([{}, {}, {"scalar_type": "float32"}, {"scalar_type": "complex128"}, {"table_rtol": 1e-3}]))
            steps.append(["compile", strategies.strip_meta(other), opts])
        else:
            steps.append(["options", draw(st.sampled_from([{"scalar_type": "float32"}, {"verbosity": 40}, {"part": "diagonal"}, {"epsilon": 1e-7}]))])
    return steps


@st.composite
def cases(draw, nvariants):
    r = draw(st.integers(0, 5))
    options = {}
    if r == 0:
        target = draw(strategies.expr_specs())
    elif r == 1:
        target = draw(strategies.form_specs(P_TP))
        options = {"sum_factorization": True}
    else:
        target = draw(strategies.forms(P_FORMS))
    if r != 1:
        # the target's own table tolerances: default, looser, or (almost) exact - the last one makes clamped round-off noise visible
        options = draw(st.sampled_from([{}, {}, {"table_rtol": 1e-3, "table_atol": 1e-4}, {"table_rtol": 1e-14, "table_atol": 1e-20}, {"table_rtol": 0.0, "table_atol": 0.0}]))
    variants = []
    for _ in range(nvariants):
        variants.append({"steps": draw(histories(strategies.strip_meta(target), tp=(r == 1))), "hashseed": draw(st.sampled_from([0, 1, 2, 3, 7, 42, 1234, 99991, 4294967295])),
                         "family": draw(st.sampled_from(["first", "first", "after"]))})
    lang = draw(st.sampled_from(["C", "C", "C", "numba"]))
    return {"target": target, "variants": variants, "language": lang, "options": options}


def strip_comments(text, lang):
    if lang == "C":
        return "\n".join(re.sub(r"//.*$", "", l).rstrip() for l in text.split("\n"))
    return "\n".join(re.sub(r"#.*$", "", l).rstrip() for l in text.split("\n"))


def first_diff(a, b):
    la, lb = a.split("\n"), b.split("\n")
    for i, (x, y) in enumerate(zip(la, lb)):
        if x != y:
            return f"line {i + 1}: baseline {x.strip()[:160]!r} vs variant {y.strip()[:160]!r}"
    return f"length {len(la)} vs {len(lb)} lines"


def evaluate(case, wd):
    target = case["target"]
    tclean = strategies.strip_meta(target)
    h = spec_hash([tclean, case["variants"], case["language"]])
    classes = [f"lang:{case['language']}", f"kind:{target.get('kind', 'form')}"]
    classes += strategies.spec_classes(target) if target.get("kind", "form") == "form" else strategies.expr_classes(target)
    opts = dict(case.get("options") or {})
    if case["language"] != "C":
        opts["language"] = case["language"]
    base_job = {"mode": "codegen", "family": "first", "steps": [], "target": [tclean], "options": opts}
    base, err = procs.run_job("vf.child_codegen", base_job, wd, f"{h}_base", hashseed=0)
    if base is None:
        return Outcome("harness-error", case_id=h, classes=classes, what=err)
    if "error" in base:
        return Outcome("rejected", case_id=h, classes=classes + ["rejected"], what=base["error"])
    nontrivial = False
    for k, v in enumerate(case["variants"]):
        job = dict(base_job, family=v["family"], steps=v["steps"])
        out, err = procs.run_job("vf.child_codegen", job, wd, f"{h}_v{k}", hashseed=v["hashseed"])
        vdesc = {"steps": [["compile-shared", "<spec>"] if s[0] == "compile-shared" else (s[:2] if s[0] != "compile" else ["compile", "<spec>", s[2]]) for s in v["steps"]], "hashseed": v["hashseed"], "family": v["family"]}
        classes += [f"family:{v['family']}", f"steps:{len(v['steps'])}"] + [f"step:{s[0]}" for s in v["steps"]]
        if out is None:
            return Outcome("harness-error", case_id=h, classes=classes, what=err)
        replay = {"target": tclean, "variant": v, "language": case["language"], "options": case.get("options") or {}}
        if "error" in out:
            return Outcome("violation", case_id=h, classes=classes, key=f"{PROP}:error:{h}", bucket=f"{PROP}:history-changes-acceptance",
                           what=f"target compiles in a fresh process but raises after history {vdesc}: {out['error']}", replay=replay)
        if out["code"] != base["code"]:
            which = 0 if out["code"][0] != base["code"][0] else 1
            a, b = base["code"][which], out["code"][which]
            only_comments = strip_comments(a, case["language"]) == strip_comments(b, case["language"])
            d = first_diff(a, b)
            # root-cause bucket: which variation alone reproduces it is found by shrinking; label by what differs
            cause = "hashseed" if (not v["steps"] and v["family"] == "first") else ("counters" if v["family"] == "after" else "history")
            sig = re.sub(r"[0-9a-f]{6,}", "H", re.sub(r"\d+", "N", d))[:80]
            return Outcome("violation", case_id=h, classes=classes, key=f"{PROP}:{cause}:{h}",
                           bucket=f"{PROP}:{cause}:{'comments-only' if only_comments else 'code'}:{case['language']}:{sig[:40]}",
                           what=f"generated {'header' if which == 0 else 'source'} differs from the fresh-process text after {vdesc} "
                                f"({'comments only' if only_comments else 'code differs'}): {d}", replay=replay,
                           sample={"target": tclean, "variant": vdesc})
        if v["steps"] and v["hashseed"] != 0:
            nontrivial = True
    has_fn = bool(target.get("coefs")) or bool(target.get("args"))
    return Outcome("ok", case_id=h, nontrivial=nontrivial and has_fn, classes=classes,
                   sample={"target": tclean, "variants": [{"steps": len(v["steps"]), "hashseed": v["hashseed"], "family": v["family"]} for v in case["variants"]]})


MULTI_MESH_PROBE = {"kind": "form", "cell": "triangle", "gdim": 2, "cdeg": 1, "elements": [["el", "P", 1, {}], ["el", "P", 1, {"dc": True}]], "args": [1, 0],
                    "coefs": [], "consts": [], "mesh2": [1],
                    "integrals": [{"m": "dx", "id": None, "md": {}, "e": ["inner", ["grad", ["u"]], ["grad", ["v"]]]}]}


def probe_multi_mesh(run_):
    """Fixed probe for the listed finding C12:multi-mesh-id-digit-boundary (forms over two meshes are excluded from the generated targets)."""
    with scratch("vf-c12-mm-") as wd:
        base_job = {"mode": "codegen", "family": "first", "steps": [], "target": [MULTI_MESH_PROBE], "options": {}}
        base, err = procs.run_job("vf.child_codegen", base_job, wd, "mm_base", hashseed=0)
        if base is None or "error" in base:
            run_.count("multi-mesh-probe:unavailable")
            return
        for k in (3, 9):
            job = dict(base_job, family="after", steps=[["objects", k]])
            out, err = procs.run_job("vf.child_codegen", job, wd, f"mm_{k}", hashseed=0)
            run_.evaluations += 1
            if out is None or "error" in out:
                run_.count("multi-mesh-probe:child-error")
                continue
            if out["code"] != base["code"]:
                which = 0 if out["code"][0] != base["code"][0] else 1
                run_.fail(f"{PROP}:multi-mesh-id-digit-boundary", f"P1 stiffness form with test and trial function on two meshes, compiled after {k} unrelated meshes were "
                          f"created (mesh ids {k},{k + 1} instead of 0,1): generated source differs: {first_diff(base['code'][which], out['code'][which])}",
                          {"target": MULTI_MESH_PROBE, "variant": {"steps": [["objects", k]], "hashseed": 0, "family": "after"}, "language": "C", "options": {}},
                          bucket=f"{PROP}:multi-mesh-id-digit-boundary")
            else:
                run_.count(f"multi-mesh-probe:identical-after-{k}-meshes")


def shard(shard, nshards, n, nvariants, seed):
    res = ShardResult()
    with scratch(f"vf-c12-{shard}-") as wd:
        drive(cases(nvariants), lambda c: evaluate(c, wd), n, (PROP, seed, shard), res, shrink_calls=25, max_buckets=4)
    return res


def run(tier: str) -> int:
    run_ = Run(PROP, tier, "exploration", RULE)
    probe_multi_mesh(run_)
    n, nv = (3, 4) if tier == "quick" else (thorough(10), 8)
    for part in run_shards(shard, 16, n=n, nvariants=nv, seed=verif_seed()):
        run_.merge(part)
    run_.assumptions = [
        "PYTHONHASHSEED values and histories are sampled, not exhausted",
        "forms whose function spaces live on two mesh objects are excluded from the generated targets (recorded finding C12:multi-mesh-id-digit-boundary, probed separately)",
        "the oracle is byte equality of compile_ufl_objects' output for namespace 'ns'",
    ]
    return run_.finish()


def replay(doc) -> int:
    rp = doc["replay"]
    case = {"target": rp["target"], "variants": [rp["variant"]], "language": rp.get("language", "C"), "options": rp.get("options") or {}}
    with scratch("vf-replay-") as wd:
        o = evaluate(case, wd)
    print(o.status, o.what)
    if o.status == "violation":
        print(f"VIOLATION property={PROP} replay=(replayed)")
        return 1
    return 0
