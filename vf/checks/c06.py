"""C06  Form descriptor dispatches each (type, subdomain id) to the right kernel (DESIGN.md 5, C06)."""

from __future__ import annotations

import re
import traceback

import numpy as np
from hypothesis import strategies as st

from .. import formcheck, kernels, specs, strategies
from ..common import Run, ShardResult, run_shards, scratch, spec_hash, verif_seed
from ..common import thorough  # noqa: E402
from ..hyp import Outcome, drive

PROP = "C06"
RULE = (
    "Modules of 1-3 Hypothesis-generated forms whose integrals mix types {cell, exterior_facet, interior_facet, vertex}, "
    "subdomain ids {unsorted ints, tuples, everywhere}, repeated ids with different quadrature metadata, all cells incl. prisms "
    "(two kernels per facet integral). Oracle: dispatch model - structural invariants of offsets/ids/array lengths; the set of "
    "listed (type,id) equals the declared set; for every (type,id) the listed kernels (matching the entity's cell-type tag) run "
    "one after another equal the reference evaluator's sum of the integrands declared for that id; descriptor metadata (rank, "
    "coefficient count/positions/names, constant ranks/shapes/names, element hashes, coordinate hash) equal values recomputed "
    "from UFL/basix. Non-trivial = form with >= 2 integral types, or >= 3 distinct ids, or a tuple id, or a prism facet "
    "integral; distinct by spec hash."
)
PROFILE = {"bessel": True, "measures": ["dx", "ds", "dS", "dP", "dr"], "ids": "rich", "max_integrals": 4, "depth": 1, "maxdeg": 2, "max_qdeg": 3,
           "p_scheme": 0.05, "p_vertex": 0.03, "ncoef": (0, 3), "nconst": (0, 3)}
ITYPES = ("cell", "exterior_facet", "interior_facet", "vertex", "ridge")


def nontrivial(spec):
    ms = {i["m"] for i in spec["integrals"]}
    ids = set()
    tup = False
    for i in spec["integrals"]:
        if isinstance(i["id"], list):
            tup = True
            ids.update(i["id"])
        else:
            ids.add(i["id"])
    return len(ms) >= 2 or len(ids) >= 3 or tup or (spec["cell"] == "prism" and ("ds" in ms))


def structural_check(fr, names, diagonal=False):
    """Descriptor invariants and metadata.  Returns None or (kind, message)."""
    d = fr.desc
    offs = d["offsets"]
    src = fr.module.source
    # array lengths from the generated text of *this* form
    name = fr.form_name
    m1 = re.search(r"form_integrals_%s\[(\d+)\]" % re.escape(name), src)
    m2 = re.search(r"form_integral_ids_%s\[(\d+)\]" % re.escape(name), src)
    m3 = re.search(r"form_integral_offsets_%s\[(\d+)\]" % re.escape(name), src)
    if not (m1 and m2 and m3):
        return ("structure", f"cannot find integral arrays of {name} in the generated source")
    n_int, n_ids, n_off = int(m1.group(1)), int(m2.group(1)), int(m3.group(1))
    if n_off != 6:
        return ("structure", f"form_integral_offsets has {n_off} entries, expected number of integral types + 1 = 6")
    if offs[0] != 0 or any(offs[i] > offs[i + 1] for i in range(5)):
        return ("structure", f"form_integral_offsets {offs} not non-decreasing from 0")
    if not (offs[5] == n_int == n_ids):
        return ("structure", f"offsets end at {offs[5]} but {n_int} kernels / {n_ids} ids are listed")
    for t in range(5):
        grp = d["ids"][offs[t] : offs[t + 1]]
        if any(grp[i] > grp[i + 1] for i in range(len(grp) - 1)):
            return ("structure", f"ids of type {kernels.ITYPES[t]} not non-decreasing: {grp}")
        if any(i < -1 for i in grp):
            return ("structure", f"negative subdomain id in {grp}")
    listed = set(fr.groups())
    declared = set(fr.declared_groups())
    if listed != declared:
        return ("dispatch-set", f"descriptor lists groups {sorted(listed)} but the form declares {sorted(declared)}")
    # one kernel per entity cell type under each (type, id)
    cell = fr.spec["cell"]
    for itype, sid in declared:
        idxs = kernels.integrals_of(d, itype, sid)
        tags = [d["integrals"][i]["domain"] for i in idxs]
        need = {formcheck.entity_celltype_tag(cell, itype, e) for e in range(formcheck.entity_count(cell, itype))}
        # several kernels may be listed under one (type, id) (they are applied one after another), but every entity
        # cell type needs at least one and no kernel may carry a tag that no entity of this cell has
        if set(tags) != need:
            return ("dispatch-tags", f"({itype},{sid}) lists kernels with cell-type tags {tags}, entities of the cell have tags {sorted(need)}")
    # metadata
    fd = fr.fd
    form = fr.form
    exp = {
        # part='diagonal' turns a bilinear form into a rank-1 object: one argument, then the coefficients
        "rank": 1 if diagonal else len(form.arguments()),
        "num_coefficients": len(fd.reduced_coefficients),
        "original_coefficient_positions": [int(p) for p in fd.original_coefficient_positions],
        "num_constants": len(form.constants()),
        "constant_ranks": [len(c.ufl_shape) for c in form.constants()],
        "constant_shapes": [[int(s) for s in c.ufl_shape] for c in form.constants()],
        # elements without a basix hash (mixed elements) are recorded as 0
        "finite_element_hashes": [int(e.basix_hash() or 0) for e in tuple(fd.argument_elements)[: 1 if diagonal else None] + tuple(fd.coefficient_elements)],
    }
    if names is not None:
        exp["coefficient_names"] = [names.get(id(c), None) for c in fd.reduced_coefficients]
        exp["constant_names"] = [names.get(id(c), None) for c in form.constants()]
    for k, v in exp.items():
        if d[k] != v:
            return ("metadata", f"descriptor field {k} = {d[k]} but the form gives {v}")
    chash = int(fr.built.mesh.ufl_coordinate_element().basix_hash())
    for i, itg in enumerate(d["integrals"]):
        if itg["coordinate_element_hash"] != chash:
            return ("metadata", f"integral {i}: coordinate_element_hash {itg['coordinate_element_hash']} != {chash}")
        if len(itg["enabled_coefficients"]) != exp["num_coefficients"]:
            return ("metadata", f"integral {i}: enabled_coefficients length")
    # only the requested scalar type has a kernel pointer
    ffi = fr.module.ffi
    for i in range(offs[5]):
        itg = fr.cform.form_integrals[i]
        for stn in ("float32", "float64", "complex64", "complex128"):
            ptr = getattr(itg, f"tabulate_tensor_{stn}")
            if (ptr != ffi.NULL) != (stn == fr.scalar_type):
                return ("metadata", f"integral {i}: tabulate_tensor_{stn} pointer {'set' if ptr != ffi.NULL else 'NULL'} for scalar type {fr.scalar_type}")
    return None


def evaluate_module(case, wd):
    speclist = case
    h = spec_hash([strategies.strip_meta(s) for s in speclist])
    runners = []
    names = {}
    classes = [f"forms:{len(speclist)}"]
    for k, spec in enumerate(speclist):
        st_ = ["float64", "float64", "float32"][spec["data_seed"] % 3] if k == 0 else runners[0].scalar_type
        fr = formcheck.FormRunner(spec, wd, scalar_type=st_, name="x")
        if fr.is_zero_form():
            return Outcome("zero-form", case_id=h, classes=classes)
        for j, f in enumerate(fr.built.coefs):
            names[id(f)] = f"coef{k}_{j}"
        for j, c in enumerate(fr.built.consts):
            names[id(c)] = f"const{k}_{j}"
        runners.append(fr)
    try:
        import ffcx.naming

        header, source, onames = kernels.generate_code([fr.form for fr in runners], {"scalar_type": runners[0].scalar_type}, prefix="vf", object_names=names)
    except kernels.Timeout:
        raise
    except Exception as e:
        return Outcome("rejected", case_id=h, classes=classes + ["rejected:" + type(e).__name__], what=f"{type(e).__name__}: {e}"[:300])
    try:
        so = kernels.cc_compile(source, wd, "m" + h)
    except kernels.CompileError as e:
        return Outcome("cc-error", case_id=h, classes=classes, what=e.stderr[-400:])
    import cffi

    ffi = cffi.FFI()
    ffi.cdef(kernels._decl(onames))
    lib = ffi.dlopen(str(so))
    mod = kernels.Module(ffi, lib, onames, source, header, None)
    # object names must be distinct
    nm = [n for _, n in onames]
    if len(set(nm)) != len(nm):
        return Outcome("violation", case_id=h, classes=classes, key=f"{PROP}:names:{h}", bucket=f"{PROP}:duplicate-form-names",
                       what=f"two forms of one module share a name: {nm}", replay={"specs": [strategies.strip_meta(s) for s in speclist]})
    worst = None
    any_nontrivial = False
    for k, (spec, fr) in enumerate(zip(speclist, runners)):
        fr.attach(mod, k)
        fr.form_name = onames[k][1]
        o = formcheck.evaluate_runner(fr, spec, itypes=ITYPES, n_inputs=1, prop=PROP, all_entities=False, nontrivial=nontrivial,
                                      extra_check=lambda r: structural_check(r, names))
        classes += o.classes
        if o.status == "violation":
            o.classes = classes
            o.replay = dict(o.replay or {}, module_specs=[strategies.strip_meta(s) for s in speclist], form_index=k)
            return o
        if o.status == "ok" and o.nontrivial:
            any_nontrivial = True
        if o.status not in ("ok",) and worst is None:
            worst = o.status
    return Outcome("ok" if worst is None else worst, case_id=h, nontrivial=any_nontrivial, classes=classes,
                   sample={"specs": [strategies.strip_meta(s) for s in speclist][:2]})


P_DIAG = {"cells": ["interval", "triangle", "quadrilateral", "tetrahedron", "prism"], "measures": ["dx", "dx", "ds", "dS"], "arities": [2], "same_args": True,
          "max_integrals": 3, "depth": 1, "maxdeg": 2, "max_qdeg": 3, "ids": "few", "p_scheme": 0.0, "p_vertex": 0.0, "ncoef": (1, 3), "nconst": (0, 2)}


def evaluate_diagonal(spec, wd):
    """The descriptor of a bilinear form compiled with part='diagonal' (a rank-1 object: one argument, then the coefficients)."""
    sclean = strategies.strip_meta(spec)
    h = spec_hash(["diag", sclean])
    classes = ["family:diagonal-descriptor"] + strategies.spec_classes(spec)
    fr = formcheck.FormRunner(spec, wd, scalar_type="float64", options={"part": "diagonal"}, name="d" + h)
    if fr.is_zero_form():
        return Outcome("zero-form", case_id=h, classes=classes)
    try:
        fr.compile()
    except (kernels.Rejected, kernels.CompileError) as e:
        return Outcome("rejected", case_id=h, classes=classes, what=str(e)[:200])
    fr.form_name = fr.module.names[0][1]
    bad = structural_check(fr, None, diagonal=True)
    if bad:
        return Outcome("violation", case_id=h, classes=classes, key=f"{PROP}:diagonal:{bad[0]}:{h}", bucket=f"{PROP}:diagonal:{bad[0]}",
                       what="part='diagonal': " + bad[1], replay={"kind": "diagonal", "spec": sclean, "ufl_source": specs.to_source(sclean)}, sample={"spec": sclean})
    return Outcome("ok", case_id=h, nontrivial=fr.desc["num_coefficients"] >= 1, classes=classes, sample={"spec": sclean, "options": {"part": "diagonal"}})


def shard(shard, nshards, n, tier, seed):
    res = ShardResult()
    with scratch(f"vf-c06-{shard}-") as wd:
        strat = st.lists(strategies.form_specs(PROFILE), min_size=1, max_size=3)
        drive(strat, lambda c: evaluate_module(c, wd), n, (PROP, seed, shard), res, shrink_calls=40)
        drive(strategies.form_specs(P_DIAG), lambda c: evaluate_diagonal(c, wd), max(2, n // 3), (PROP, seed, shard, "diag"), res, shrink_calls=20)
    return res


def run(tier: str) -> int:
    run_ = Run(PROP, tier, "exploration", RULE)
    n = 7 if tier == "quick" else thorough(50)
    for part in run_shards(shard, 16, n=n, tier=tier, seed=verif_seed()):
        run_.merge(part)
    run_.assumptions = [
        "UFL's integral_data grouping defines which integrands are declared for an id (tuple ids count for each member; do_append_everywhere_integrals=False)",
        "array lengths are read from the generated source text; everything else from the compiled descriptor",
    ]
    return run_.finish()


def replay(doc) -> int:
    rp = doc["replay"]
    if rp.get("kind") == "diagonal":
        with scratch("vf-replay-") as wd:
            o = evaluate_diagonal(rp["spec"], wd)
        print(o.status, o.what)
        if o.status == "violation":
            print(f"VIOLATION property={PROP} replay=(replayed)")
            return 1
        return 0
    specs_ = rp.get("module_specs") or [rp["spec"]]
    with scratch("vf-replay-") as wd:
        o = evaluate_module(specs_, wd)
    print(o.status, o.what)
    if o.status == "violation":
        print(f"VIOLATION property={PROP} replay=(replayed)")
        return 1
    return 0
