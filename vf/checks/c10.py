"""C10  Optimisation options never change the computed tensor (DESIGN.md 5, C10)."""

from __future__ import annotations

import numpy as np
from hypothesis import strategies as st

from .. import formcheck, inputs, kernels, refeval, specs, strategies
from ..common import Run, ShardResult, run_shards, scratch, spec_hash, verif_seed
from ..common import thorough  # noqa: E402
from ..hyp import Outcome, drive

PROP = "C10"
RULE = (
    "Four generated families, each a metamorphic relation between two compilations of one form on identical inputs: "
    "(a) quadrilateral/hexahedron cell-integral forms over tensor-product elements (Q1-Q3 scalar/vector, TP coordinate "
    "element of degree 1-2, coefficients, several terms/rules) with sum_factorization False vs True - equal within the "
    "propagated bound and each equal to the reference; (b) bilinear forms with identical argument spaces incl. blocked/mixed "
    "spaces and all integral types compiled through the JIT with part='diagonal' - equals the diagonal of the full tensor; "
    "(c) any form x (table_rtol, table_atol) in {1e-3..1e-14}^2 - each kernel within its own tolerance of the reference, half of them "
    "after the same form was compiled with very coarse tolerances in the same process; "
    "(d) options on integrals they do not concern (sum_factorization on facet/simplex integrals, part='diagonal' on rank-0/1 "
    "forms) - bit-identical tensors, an exception counts as an effect. Non-trivial: (a) form has a coefficient or non-affine "
    "geometry; (b) blocked/mixed space or >= 2 terms; (c) tolerance looser than default; (d) always; distinct by spec hash."
)
P_SUMFACT = {"cells": ["quadrilateral", "hexahedron"], "measures": ["dx"], "tp": True, "maxdeg": 3, "max_integrals": 3, "depth": 1,
             "manifold": 0.0, "nonaffine": 0.5, "min_qdeg": 2, "max_qdeg": 4, "p_scheme": 0.35, "p_vertex": 0.03, "ncoef": (0, 2), "ids": "few", "p_tp_sibling": 0.5}
P_DIAG = {"cells": ["interval", "triangle", "quadrilateral", "tetrahedron", "prism"], "measures": ["dx", "dx", "ds", "dS"], "arities": [2], "same_args": True, "max_integrals": 3, "depth": 1, "maxdeg": 2,
          "max_qdeg": 3, "ids": "few", "p_scheme": 0.0, "p_vertex": 0.0}
P_TOL = {"measures": ["dx", "ds"], "max_integrals": 2, "depth": 2, "maxdeg": 3}
P_NOEFFECT = {"cells": ["interval", "triangle", "quadrilateral", "tetrahedron", "prism"], "measures": ["dx", "ds", "dS"], "max_integrals": 2, "depth": 1, "maxdeg": 2, "max_qdeg": 3, "p_scheme": 0.0, "p_vertex": 0.0}
ITYPES = ("cell", "exterior_facet", "interior_facet")
TOLS = [1e-3, 1e-5, 1e-6, 1e-9, 1e-12, 1e-14]


def _viol(h, classes, fam, kind, what, spec, extra=None):
    sclean = strategies.strip_meta(spec)
    return Outcome("violation", case_id=h, classes=classes, key=f"{PROP}:{fam}:{kind}:{h}", bucket=f"{PROP}:{fam}:{kind}:{spec['cell']}",
                   what=what, replay=dict({"family": fam, "spec": sclean, "ufl_source": specs.to_source(sclean)}, **(extra or {})),
                   sample={"family": fam, "spec": sclean})


def family_sumfact(spec, wd):
    sclean = strategies.strip_meta(spec)
    h = spec_hash(["a", sclean])
    classes = ["family:a-sumfact"] + strategies.spec_classes(spec)
    built = specs.build(sclean)
    if built.form.empty():
        return Outcome("zero-form", case_id=h, classes=classes)
    frs = {}
    for sf in (False, True):
        try:
            frs[sf] = formcheck.FormRunner(spec, wd, options={"sum_factorization": sf}, name=f"sf{int(sf)}_{h}", built=built).compile()
        except kernels.Rejected as e:
            msg = str(e)
            if sf and "Sum factorization not available for this quadrature rule" in msg:
                return Outcome("rejected-documented", case_id=h, classes=classes + ["sumfact-rejected:no-tensor-rule"])
            return Outcome("rejected", case_id=h, classes=classes + [f"rejected:{type(e.exc).__name__}"], what=msg[:300])
        except kernels.CompileError as e:
            return _viol(h, classes, "a", "cc-error", f"sum_factorization={sf}: C compiler error: {e.stderr[-300:]}", spec)
    checked = 0
    for itype, sid in frs[False].declared_groups():
        data = inputs.FormData(built, spec["data_seed"])
        try:
            Aref, E = frs[False].reference(itype, sid, data)
        except (refeval.Unstable, refeval.Unsupported):
            continue
        res = {}
        for sf in (False, True):
            A, problems, n, _ = frs[sf].run_group(itype, sid, data)
            if n == 0 or problems:
                return _viol(h, classes, "a", "call", f"sum_factorization={sf}: {'no kernel' if n == 0 else '; '.join(problems)}", spec)
            res[sf] = np.asarray(A)
            ok, worst, idx = formcheck.compare(res[sf], Aref, E + refeval.LAST["nacc"] * frs[sf].tol.u * np.abs(Aref))
            if not ok:
                return _viol(h, classes, "a", f"value-sf{int(sf)}", f"sum_factorization={sf}: A{list(idx)} = {res[sf][idx] if idx else res[sf]!r}, reference "
                             f"{Aref[idx] if idx else Aref!r} (ratio {worst:.3g}); max|A_sf - A_plain| = {np.nanmax(np.abs(res[sf] - res.get(False, res[sf]))):.3e}", spec)
        checked += 1
    if not checked:
        return Outcome("inconclusive", case_id=h, classes=classes)
    return Outcome("ok", case_id=h, nontrivial=bool(spec["coefs"]) or spec["cdeg"] > 1, classes=classes, sample={"family": "a", "spec": sclean})


def family_diagonal(spec, wd):
    sclean = strategies.strip_meta(spec)
    h = spec_hash(["b", sclean])
    classes = ["family:b-diagonal"] + strategies.spec_classes(spec)
    built = specs.build(sclean)
    if built.form.empty():
        return Outcome("zero-form", case_id=h, classes=classes)
    try:
        full = formcheck.FormRunner(spec, wd, name=f"full_{h}", built=built).compile()
    except (kernels.Rejected, kernels.CompileError) as e:
        return Outcome("rejected", case_id=h, classes=classes, what=str(e)[:300])
    try:
        objs, jmod, _ = kernels.jit_forms([built.form], options={"part": "diagonal", "scalar_type": "float64"}, cache_dir=wd / f"jit_{h}", cflags=("-O0", "-w"))
    except Exception as e:
        if "Diagonal form seems to be zero" in str(e):
            return Outcome("rejected-documented", case_id=h, classes=classes + ["diagonal-zero"])
        # a Python exception before the compiler is a rejection, not a changed tensor (C19 judges rejections)
        return Outcome("rejected", case_id=h, classes=classes + [f"diagonal-rejected:{type(e).__name__}"], what=str(e)[:300])
    diag = formcheck.FormRunner(spec, wd, options={"part": "diagonal"}, name="unused", built=built).attach_jit(objs[0], jmod)
    if diag.desc["rank"] != 1:
        return _viol(h, classes, "b", "rank", f"diagonal form has rank {diag.desc['rank']}, expected 1", spec)
    cell = spec["cell"]
    checked = 0
    for itype, sid in full.declared_groups():
        data = inputs.FormData(built, spec["data_seed"])
        nent = formcheck.entity_count(cell, itype)
        ent = (nent - 1, 0)
        try:
            Aref, E = full.reference(itype, sid, data, entity=ent)
        except (refeval.Unstable, refeval.Unsupported):
            continue
        Af, p1, n1, _ = full.run_group(itype, sid, data, entity=ent)
        Ad, p2, n2, _ = diag.run_group(itype, sid, data, entity=ent, diagonal=True)
        if n2 == 0:
            # the JIT drops integrals whose diagonal blocks vanish: the diagonal must then be zero
            Ad = np.zeros(np.asarray(Af).shape[0])
        if p1 or p2:
            return _viol(h, classes, "b", "guard", "; ".join(p1 + p2), spec)
        want = np.diagonal(np.asarray(Af))
        bound = np.diagonal(E) + refeval.LAST["nacc"] * full.tol.u * np.abs(want)
        ok, worst, idx = formcheck.compare(np.asarray(Ad), want, 2 * bound)
        if not ok:
            return _viol(h, classes, "b", f"value:{itype}", f"part='diagonal' kernel ({itype},{sid}): entry {list(idx)} = {np.asarray(Ad)[idx]!r} but the diagonal of "
                         f"the full tensor is {want[idx]!r} (ratio {worst:.3g}); max diff {np.max(np.abs(np.asarray(Ad) - want)):.3e}", spec, {"itype": itype})
        checked += 1
    if not checked:
        return Outcome("inconclusive", case_id=h, classes=classes)
    tags = set(spec.get("_tags", []))
    return Outcome("ok", case_id=h, nontrivial=bool(tags - {"P", "DG"}) or len(spec["integrals"]) >= 2, classes=classes,
                   sample={"family": "b", "spec": sclean})


def family_tolerance(case, wd):
    spec, rtol, atol = case
    warm = int(spec.get("data_seed", 0)) % 2 == 0
    if warm:
        # the same form compiled first with very coarse tolerances in this process: the judged compilation below must not inherit them
        try:
            formcheck.FormRunner(spec, wd, scalar_type="float64", options={"table_rtol": 1e-2, "table_atol": 5e-2},
                                 name="warm" + spec_hash(strategies.strip_meta(spec))).compile()
        except (kernels.Rejected, kernels.CompileError):
            pass
    o = formcheck.evaluate_form_spec(spec, wd, itypes=ITYPES, scalar_type="float64", options={"table_rtol": rtol, "table_atol": atol}, prop=PROP,
                                     n_inputs=1, nontrivial=lambda s: rtol > 1e-6 or atol > 1e-9)
    o.classes = ["family:c-tolerances", f"rtol:{rtol:g}", f"atol:{atol:g}"] + (["after-coarse-compile-in-process"] if warm else []) + o.classes
    o.case_id = spec_hash(["c", strategies.strip_meta(spec), rtol, atol])
    if o.status == "violation":
        o.bucket = f"{PROP}:c:tolerance:{spec['cell']}"
        o.replay = dict(o.replay or {}, family="c", table_rtol=rtol, table_atol=atol)
    return o


def family_noeffect(case, wd):
    spec, which = case
    sclean = strategies.strip_meta(spec)
    h = spec_hash(["d", sclean, which])
    classes = ["family:d-noeffect", "option:" + which] + strategies.spec_classes(spec)
    built = specs.build(sclean)
    if built.form.empty():
        return Outcome("zero-form", case_id=h, classes=classes)
    simplex_cell = spec["cell"] in strategies.SIMPLEX or spec["cell"] == "prism"
    has_cell_integral = any(i["m"] == "dx" for i in spec["integrals"])
    try:
        if which == "sum_factorization":
            base = formcheck.FormRunner(spec, wd, name=f"b_{h}", built=built).compile()
        else:
            # both modules through the JIT with the same compiler flags: bit-identity is only meaningful for one toolchain setting
            # (gcc -O1 folds cosh(tanh(3.0)) at compile time, -O0 calls libm: 1 ulp apart)
            objs0, jmod0, _ = kernels.jit_forms([built.form], options={"scalar_type": "float64"}, cache_dir=wd / f"jit0_{h}", cflags=("-O0", "-w"))
            base = formcheck.FormRunner(spec, wd, name="unused", built=built).attach_jit(objs0[0], jmod0)
    except (kernels.Rejected, kernels.CompileError) as e:
        return Outcome("rejected", case_id=h, classes=classes, what=str(e)[:300])
    except Exception as e:  # the JIT rejects the form as it stands
        return Outcome("rejected", case_id=h, classes=classes, what=f"{type(e).__name__}: {e}"[:300])
    key = None
    try:
        if which == "sum_factorization":
            other = formcheck.FormRunner(spec, wd, options={"sum_factorization": True}, name=f"o_{h}", built=built).compile()
        else:
            objs, jmod, _ = kernels.jit_forms([built.form], options={"part": "diagonal", "scalar_type": "float64"}, cache_dir=wd / f"jit_{h}", cflags=("-O0", "-w"))
            other = formcheck.FormRunner(spec, wd, options={"part": "diagonal"}, name="unused", built=built).attach_jit(objs[0], jmod)
    except Exception as e:
        msg = str(e)
        if which == "sum_factorization" and has_cell_integral and "Sum factorization not available for this quadrature rule" in msg:
            # explicit rejection of cell integrals whose rule has no tensor factors: recorded finding (see known_findings.json)
            o = _viol(h, classes, "d", "sumfact-raises", "sum_factorization=True raises 'Sum factorization not available for this quadrature rule' for a "
                      "form with a cell integral on a cell without tensor-product rules, although the option does not apply to it", spec)
            o.key = "C10:sumfact-raises:cell-integral-without-tensor-rule"
            return o
        return _viol(h, classes, "d", "exception", f"option {which} raises {type(e).__name__}: {msg[:300]} for a form it does not concern", spec)
    cell = spec["cell"]
    checked = 0
    for itype, sid in base.declared_groups():
        data = inputs.FormData(built, spec["data_seed"])
        nent = formcheck.entity_count(cell, itype)
        ent = (nent - 1, 0)
        A1, p1, n1, _ = base.run_group(itype, sid, data, entity=ent)
        A2, p2, n2, _ = other.run_group(itype, sid, data, entity=ent)
        if n2 != n1:
            return _viol(h, classes, "d", "dispatch", f"option {which}: {n2} kernels under ({itype},{sid}) instead of {n1}", spec)
        if A1 is None:
            continue
        if np.asarray(A1).tobytes() != np.asarray(A2).tobytes():
            return _viol(h, classes, "d", "value", f"option {which} changes the tensor of ({itype},{sid}) although it does not apply: max diff "
                         f"{np.nanmax(np.abs(np.asarray(A1) - np.asarray(A2))):.3e}", spec, {"itype": itype})
        checked += 1
    if not checked:
        return Outcome("inconclusive", case_id=h, classes=classes)
    return Outcome("ok", case_id=h, nontrivial=True, classes=classes, sample={"family": "d", "option": which, "spec": sclean})


def noeffect_cases():
    # sum_factorization: forms without any quadrilateral/hexahedron cell integral (facets anywhere, cells on simplices/prisms)
    sf_facets = strategies.form_specs(dict(P_NOEFFECT, measures=["ds", "dS"]))
    sf_simplex = strategies.form_specs(dict(P_NOEFFECT, cells=["interval", "triangle", "tetrahedron"], measures=["dx", "ds"]))
    dg = strategies.form_specs(dict(P_NOEFFECT, arities=[0, 1]))
    return st.one_of(
        st.tuples(sf_facets, st.just("sum_factorization")),
        st.tuples(sf_facets, st.just("sum_factorization")),
        st.tuples(sf_simplex, st.just("sum_factorization")),
        st.tuples(dg, st.just("diagonal")),
    )


def shard(shard, nshards, n, tier, seed):
    res = ShardResult()
    known = ["C10:sumfact-raises:cell-integral-without-tensor-rule"]
    with scratch(f"vf-c10-{shard}-") as wd:
        drive(strategies.form_specs(P_SUMFACT), lambda s: family_sumfact(s, wd), n + (n + 1) // 2, (PROP, seed, shard, "a"), res, shrink_calls=30)
        drive(strategies.form_specs(P_DIAG), lambda s: family_diagonal(s, wd), n, (PROP, seed, shard, "b"), res, shrink_calls=30)
        tol_cases = st.tuples(strategies.form_specs(P_TOL), st.sampled_from(TOLS), st.sampled_from(TOLS))
        drive(tol_cases, lambda c: family_tolerance(c, wd), n, (PROP, seed, shard, "c"), res, shrink_calls=30)
        drive(noeffect_cases(), lambda c: family_noeffect(c, wd), n, (PROP, seed, shard, "d"), res, shrink_calls=30, known_keys=known)
    return res


def run(tier: str) -> int:
    run_ = Run(PROP, tier, "exploration", RULE)
    n = 2 if tier == "quick" else thorough(20)
    for part in run_shards(shard, 16, n=n, tier=tier, seed=verif_seed()):
        run_.merge(part)
    run_.assumptions = [
        "sum factorisation is only accepted by FFCx for tensor-product factorised elements incl. the coordinate element; the generator builds those",
        "the documented RuntimeError for a quadrilateral/hexahedron cell integral whose rule has no tensor factors is a clean rejection in family (a)",
        "diagonal oracle: diag(A_full) with twice the propagated bound",
    ]
    return run_.finish()


def replay(doc) -> int:
    rp = doc["replay"]
    fam = rp.get("family", "a")
    with scratch("vf-replay-") as wd:
        if fam == "a":
            o = family_sumfact(rp["spec"], wd)
        elif fam == "b":
            o = family_diagonal(rp["spec"], wd)
        elif fam == "c":
            o = family_tolerance((rp["spec"], rp["table_rtol"], rp["table_atol"]), wd)
        else:
            o = family_noeffect((rp["spec"], "sum_factorization" if "sumfact" in doc.get("bucket", "") or "sum_fact" in doc.get("what", "") else "diagonal"), wd)
    print(o.status, o.what)
    if o.status == "violation":
        print(f"VIOLATION property={PROP} replay=(replayed)")
        return 1
    return 0
