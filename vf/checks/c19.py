"""C19  Accepted input always yields valid C; rejected input fails before the compiler (DESIGN.md 5, C19)."""

from __future__ import annotations

import collections
import itertools
import re

import basix
import numpy as np
from hypothesis import strategies as st

from .. import formcheck, inputs, kernels, refeval, specs, strategies
from ..common import Run, ShardResult, pmap, run_shards, scratch, spec_hash, verif_seed
from ..common import thorough  # noqa: E402
from ..hyp import Outcome, drive

PROP = "C19"
RULE = (
    "(1) G_supported: forms and expressions from the grammar used by C01/C02/C04/C06 (all cells, elements, operators, several "
    "rules and subdomains per kernel) - outcome must be 'built' (C17 compiles without error; every listed kernel also agrees with "
    "the reference evaluator) or a Python exception raised before any compiler is spawned; (2) G_wild: the same grammar with "
    "constructs FFCx does not claim to support (cell_avg/facet_avg, CellCoordinate/FacetCoordinate-like raw geometry, Bessel "
    "functions, interior facets on prisms, discontinuous vertex integrals, sum factorisation on non-tensor rules/elements, "
    "part='diagonal' with different argument spaces, negative subdomain ids, vertex scheme on mixed facets) - outcome must be "
    "'rejected' (Python exception) or 'built' with kernels that agree with the reference where it can evaluate them; (3) "
    "exhaustive enumeration of all quadrature rules (6 cells x degree 0..30 x {default, GLL, Gauss-Jacobi} x {standard, macro} "
    "polysets + vertex scheme), every pair of distinct rules on one cell that share FFCx's rule id is turned into a two-integral "
    "form and compiled. Violation = C compiler error, or a built kernel disagreeing with the reference. Non-trivial = spec with >= 2 "
    "rules or a wild construct, and every rule pair; distinct by spec hash."
)
P_SUP = {"bessel": True, "p_mesh2": 0.25, "measures": ["dx", "dx", "ds", "dS", "dP"], "ids": "few", "max_integrals": 4, "depth": 2, "maxdeg": 3, "max_qdeg": 6, "p_scheme": 0.25, "p_vertex": 0.1}
ITYPES = ("cell", "exterior_facet", "interior_facet", "vertex")

WILD = ["two-qelements", "two-qelements", "cell_avg", "facet_avg", "bessel", "raw-geometry", "prism-dS", "vertex-dg", "sumfact-nontp", "diag-different-spaces", "negative-id",
        "vertex-scheme-prism", "two-arguments-expression", "hessian-nonaffine", "ridge"]


@st.composite
def wild_cases(draw):
    kind = draw(st.sampled_from(WILD))
    options = {}
    if kind == "two-qelements":
        # one integral containing two quadrature elements: FFCx defines the rule by "the" quadrature element, so the two must agree
        cell = draw(st.sampled_from(["interval", "triangle", "quadrilateral", "tetrahedron"]))
        tdim = specs.TDIM[cell]
        ct = refeval.CT[cell]
        q = draw(st.integers(1, 3))
        pts, wts = basix.make_quadrature(ct, q)
        pts, wts = np.asarray(pts), np.asarray(wts)
        variant = draw(st.sampled_from(["consistent", "points-differ", "weights-differ", "both-differ", "size-differs"]))
        p2, w2 = pts.copy(), wts.copy()
        if variant in ("points-differ", "both-differ"):
            p2 = np.round(0.9 * pts + 0.1 * pts.mean(axis=0), 12)  # same count, pulled towards the centroid
        if variant in ("weights-differ", "both-differ"):
            w2 = wts[::-1].copy() if not np.allclose(wts, wts[::-1]) else wts * np.linspace(0.9, 1.1, len(wts))
        if variant == "size-differs":
            p2, w2 = (np.asarray(x) for x in basix.make_quadrature(ct, q + 2))
        if p2.shape == pts.shape and np.allclose(p2, pts, rtol=1e-3, atol=1e-3) and np.allclose(w2, wts, rtol=1e-3, atol=1e-3):
            variant = "consistent"  # e.g. a one-point rule: its point is the centroid, pulling it towards the centroid changes nothing
            p2, w2 = pts.copy(), wts.copy()
        els = [["cquad", pts.tolist(), wts.tolist(), []], ["cquad", p2.tolist(), w2.tolist(), []], ["el", "P", 1, {}]]
        arity = draw(st.sampled_from([0, 1]))
        e = ["mul", ["f", 0], ["f", 1]]
        if arity == 1:
            e = ["mul", e, ["v"]]
        spec = {"kind": "form", "cell": cell, "gdim": tdim, "cdeg": 1, "elements": els, "args": [2] * arity, "coefs": [0, 1], "consts": [],
                "integrals": [{"m": "dx", "id": None, "md": {}, "e": e}], "data_seed": draw(st.integers(0, 2**31 - 1)),
                "_tags": ["quadrature"], "_features": ["two-qelements:" + variant]}
        kind = "two-qelements:" + variant
    elif kind == "prism-dS":
        spec = draw(strategies.form_specs({"cells": ["prism"], "measures": ["dx"], "max_integrals": 1, "depth": 1, "maxdeg": 1}))
        spec["integrals"][0]["m"] = "dS"
        na = len(spec["args"])
        spec["integrals"][0]["e"] = ["lit", 1.0] if na == 0 else (["inner", ["lit", 1.0], ["+", ["v"]]] if na == 1 else ["inner", ["+", ["u"]], ["-", ["v"]]])
        spec["elements"] = [["el", "P", 1, {}]]
        spec["args"] = [0] * na
        spec["coefs"] = []
    elif kind == "vertex-dg":
        spec = draw(strategies.form_specs({"measures": ["dx"], "arities": [1], "max_integrals": 1, "depth": 0, "element_tags": ["DG", "vecDG"]}))
        spec["integrals"][0]["m"] = "dP"
        spec["integrals"][0]["md"] = {}
    elif kind == "sumfact-nontp":
        spec = draw(strategies.form_specs({"cells": ["quadrilateral", "hexahedron", "triangle"], "measures": ["dx"], "max_integrals": 2, "depth": 1, "maxdeg": 2}))
        options = {"sum_factorization": True}
    elif kind == "diag-different-spaces":
        spec = draw(strategies.form_specs({"measures": ["dx"], "arities": [2], "max_integrals": 1, "depth": 1, "maxdeg": 2}))
        options = {"part": "diagonal"}
    elif kind == "negative-id":
        spec = draw(strategies.form_specs({"measures": ["dx", "ds"], "max_integrals": 2, "depth": 1, "maxdeg": 2}))
        spec["integrals"][0]["id"] = -draw(st.integers(2, 5))
    elif kind == "vertex-scheme-prism":
        spec = draw(strategies.form_specs({"cells": ["prism", "interval"], "measures": ["ds"], "max_integrals": 1, "depth": 1, "maxdeg": 1}))
        spec["integrals"][0]["md"] = {"quadrature_rule": "vertex", "quadrature_degree": 1}
    elif kind == "ridge":
        spec = draw(strategies.form_specs({"cells": ["triangle", "tetrahedron", "hexahedron"], "measures": ["dx"], "arities": [0, 1], "max_integrals": 1, "depth": 1,
                                           "maxdeg": 2, "nonaffine": 0.0, "manifold": 0.0, "geo": ["x"]}))
        spec["integrals"][0]["m"] = "dr"
    elif kind == "hessian-nonaffine":
        spec = draw(strategies.form_specs({"measures": ["dx"], "max_integrals": 1, "depth": 1, "maxdeg": 3, "nonaffine": 1.0, "hessian_nonaffine": True,
                                           "element_tags": ["P", "vecP"], "arities": [1, 2]}))
    elif kind == "two-arguments-expression":
        spec = draw(strategies.expr_specs({"p_argument": 1.0}))
        spec["args"] = [spec["args"][0], spec["args"][0]]
        spec["e"] = ["outer", ["u"], ["v"]]
    else:
        spec = draw(strategies.form_specs({"measures": ["dx", "ds"], "max_integrals": 2, "depth": 1, "maxdeg": 2, "ncoef": (1, 2), "arities": [0, 1]}))
        I = spec["integrals"][0]
        f = ["f", 0]
        base = ["idx", f] + [0] * len(_shape_of(spec, f)) if _shape_of(spec, f) else f
        if kind == "cell_avg":
            extra = ["cell_avg", base]
        elif kind == "facet_avg":
            extra = ["facet_avg", base]
        elif kind == "bessel":
            extra = [draw(st.sampled_from(["bessel_J", "bessel_Y"])), ["lit", draw(st.integers(0, 2))], ["add", ["lit", 2.0], ["mul", base, base]]]
        else:
            g = draw(st.sampled_from(["X", "ReferenceCellVolume", "CellVertices", "CellEdgeVectors", "FacetJacobian", "ReferenceNormal"]))
            extra = ["idx", ["geo", g]] + [0] * {"X": 1, "ReferenceCellVolume": 0, "CellVertices": 2, "CellEdgeVectors": 2, "FacetJacobian": 2, "ReferenceNormal": 1}[g]
            if g in ("FacetJacobian", "ReferenceNormal"):
                I["m"] = "ds"
        I["e"] = ["mul", extra, I["e"]]
    spec.setdefault("_features", [])
    spec["_wild"] = kind
    return {"spec": spec, "options": options}


def _shape_of(spec, tree):
    ns = specs.typing_namespace(strategies.strip_meta(spec))
    return specs.tree_shape(tree, ns)


def evaluate_supported(spec, wd, options=None, wild=None):
    is_expr = spec.get("kind") == "expr"
    sclean = strategies.strip_meta(spec)
    h = spec_hash([sclean, options])
    classes = (strategies.expr_classes(spec) if is_expr else strategies.spec_classes(spec)) + (["wild:" + wild] if wild else ["supported"])
    replay = {"spec": sclean, "options": options or {}, "ufl_source": _safe_source(sclean), "wild": wild}
    sample = {"spec": sclean, "wild": wild}
    try:
        built = specs.build(sclean)
    except BaseException as e:  # UFL itself rejects the construct
        return Outcome("rejected-by-ufl", case_id=h, nontrivial=bool(wild), classes=classes + ["ufl:" + type(e).__name__])
    obj = built.obj
    if not is_expr and obj.empty():
        return Outcome("zero-form", case_id=h, classes=classes)
    # a quarter of the real-grammar inputs are compiled for a complex scalar type (comparisons, min/max and sign then have to be
    # rejected by a Python exception unless their operands are provably real)
    st_ = "complex128" if (not wild and int(spec.get("data_seed", 0)) % 4 == 0) else "float64"
    if st_ != "float64":
        classes = classes + ["scalar:" + st_]
    try:
        mod = kernels.compile_module([obj], dict(options or {}, scalar_type=st_), workdir=wd, name="m" + h)
    except kernels.Rejected as e:
        return Outcome("rejected", case_id=h, nontrivial=bool(wild), classes=classes + ["rejected:" + type(e.exc).__name__], what=str(e)[:200])
    except kernels.CompileError as e:
        return Outcome("violation", case_id=h, classes=classes, key=f"{PROP}:cc:{h}", bucket=f"{PROP}:compiler-error:{_cc_signature(e.stderr)}",
                       what=f"FFCx accepted the input but the generated C does not compile: {_cc_first_error(e.stderr)}", replay=replay, sample=sample)
    if wild and wild.startswith("two-qelements:") and not wild.endswith(":consistent"):
        # the construct has no meaning FFCx could implement (its own analysis asserts the quadrature elements of an integral agree):
        # building it is "silently computing something else"
        return Outcome("violation", case_id=h, classes=classes, key=f"{PROP}:accepted-ill-defined:{h}", bucket=f"{PROP}:accepted-ill-defined:{wild}",
                       what=f"FFCx accepted and compiled an input it cannot give a meaning to ({wild}): one integral with two quadrature elements whose rules "
                            "differ; the kernel uses one rule for both", replay=replay, sample=sample)
    if kernels.uses_posix_bessel(mod.source):
        classes = classes + ["posix-bessel:compiled-with-_DEFAULT_SOURCE(known finding excluded)"]
    if is_expr or (options and options.get("part") == "diagonal"):
        return Outcome("built", case_id=h, nontrivial=bool(wild), classes=classes + ["built"], sample=sample)
    # built: kernels must not silently compute something else
    fr = formcheck.FormRunner(spec, wd, scalar_type=st_, options=options, name="x", built=built).attach(mod, 0)
    o = formcheck.evaluate_runner(fr, spec, itypes=ITYPES + ("ridge",), n_inputs=1, prop=PROP, all_entities=False,
                                  nontrivial=lambda s: bool(wild) or len({(i["md"].get("quadrature_degree"), i["md"].get("quadrature_rule")) for i in s["integrals"]}) >= 2,
                                  classes=classes + ["built"])
    if o.status == "violation":
        o.bucket = f"{PROP}:silent-miscomputation:{wild or 'supported'}:{o.bucket.split(':')[-2] if o.bucket else ''}"
        o.replay = dict(o.replay or {}, wild=wild)
    elif o.status in ("ok",):
        o.status = "ok"
    o.case_id = h
    return o


def _safe_source(s):
    try:
        return specs.to_source(s)
    except Exception as e:
        return f"<unprintable: {e}>"


def _cc_first_error(stderr):
    for l in stderr.split("\n"):
        if "error" in l:
            return l.strip()[:400]
    return stderr[-400:]


def _cc_signature(stderr):
    import re

    l = _cc_first_error(stderr)
    l = re.sub(r".*error:", "", l)
    l = re.sub(r"[0-9a-f]{6,}", "H", l)
    l = re.sub(r"\d+", "N", l)
    return l.strip()[:60]


# ---------------------------------------------------------------------------------------
# (3) exhaustive rule-id collisions
# ---------------------------------------------------------------------------------------


def all_rules():
    from ffcx.ir.representationutils import QuadratureRule

    out = {}
    for cell in ["interval", "triangle", "quadrilateral", "tetrahedron", "hexahedron", "prism"]:
        ct = refeval.CT[cell]
        full = {}
        for scheme in ["default", "GLL", "Gauss-Jacobi"]:
            for q in range(0, 31):
                for pst in (basix.PolysetType.standard, basix.PolysetType.macroedge):
                    try:
                        pts, wts = basix.make_quadrature(ct, q, rule=basix.quadrature.string_to_type(scheme), polyset_type=pst)
                    except Exception:
                        continue
                    r = QuadratureRule(np.asarray(pts), np.asarray(wts))
                    hash(r)
                    full.setdefault(r.hash_obj.hexdigest(), (scheme, q, "macro" if pst == basix.PolysetType.macroedge else "standard", int(pts.shape[0]), r.id()))
        if cell != "prism":
            pts = np.asarray(basix.geometry(ct))
            r = QuadratureRule(pts, np.full(len(pts), basix.cell.volume(ct) / len(pts)))
            hash(r)
            full.setdefault(r.hash_obj.hexdigest(), ("vertex", 1, "standard", int(len(pts)), r.id()))
        out[cell] = full
    return out


def collision_pairs(rules):
    pairs = []
    npairs = 0
    for cell, full in rules.items():
        byid = collections.defaultdict(list)
        for digest, info in full.items():
            byid[info[4]].append(info)
        n = len(full)
        npairs += n * (n - 1) // 2
        for rid, infos in byid.items():
            for a, b in itertools.combinations(infos, 2):
                pairs.append((cell, rid, a, b))
    return pairs, npairs


def same_size_pairs(rules, per_size):
    """Pairs of distinct rules of one cell with equally many points (up to `per_size` pairs per (cell, size))."""
    out = []
    for cell, full in rules.items():
        bysize = collections.defaultdict(list)
        for digest, info in sorted(full.items(), key=lambda kv: (kv[1][3], kv[1][0], kv[1][1], kv[1][2])):
            bysize[info[3]].append(info)
        for n, infos in sorted(bysize.items()):
            if n > 64:
                continue
            # prefer pairs of different schemes / polysets (same scheme and size usually means consecutive degrees)
            pairs = sorted(itertools.combinations(infos, 2), key=lambda ab: (ab[0][0] == ab[1][0], ab[0][2] == ab[1][2]))
            out += [(cell, n, a, b) for a, b in pairs[:per_size]]
    return out


def pair_form_spec(cell, a, b, same_integrand=False):
    """A linear form with two integrals using rules a and b; macro polysets need an iso (macro) test element."""
    ints = []
    macro = a[2] == "macro" or b[2] == "macro"
    for k, (scheme, q, pst, npts, rid) in enumerate((a, b)):
        md = {"quadrature_degree": int(q)}
        if scheme != "default":
            md["quadrature_rule"] = scheme
        e = ["inner", ["f", 0] if (k == 0 or same_integrand) else ["mul", ["f", 0], ["f", 0]], ["v"]]
        ints.append({"m": "dx", "id": None, "md": md, "e": e})
    el = ["el", "iso", 1, {}] if macro else ["el", "P", 1, {}]
    return {"kind": "form", "cell": cell, "gdim": specs.TDIM[cell], "cdeg": 1, "elements": [el, ["el", "P", 1, {}]], "args": [0], "coefs": [1], "consts": [],
            "integrals": ints, "data_seed": 7}


def check_pair(args):
    cell, rid, a, b, wd = args
    spec = pair_form_spec(cell, a, b, same_integrand=(wd == "same-integrand"))
    with scratch("vf-c19p-") as d:
        o = evaluate_supported(spec, d)
    return (cell, rid, a[:4], b[:4], o.status, o.what[:300] if o.what else "")


BESSEL_PROBE = {"kind": "form", "cell": "triangle", "gdim": 2, "cdeg": 1, "elements": [["el", "P", 1, {}]], "args": [0], "coefs": [0], "consts": [],
                "integrals": [{"m": "dx", "id": None, "md": {}, "e": ["mul", ["bessel_J", ["lit", 1], ["add", ["lit", 1.5], ["tanh", ["f", 0]]]], ["v"]]}],
                "data_seed": 3}


def probe_bessel_strict_c17(run_):
    """Fixed probe for the listed finding C19:bessel-posix-undeclared (the generators compile such sources with _DEFAULT_SOURCE)."""
    built = specs.build(BESSEL_PROBE)
    with scratch("vf-c19b-") as wd:
        try:
            _, source, _ = kernels.generate_code([built.form], {"scalar_type": "float64"})
        except BaseException as e:  # noqa: BLE001 - a rejection is an allowed outcome
            run_.count("bessel-probe:rejected:" + type(e).__name__)
            return
        run_.evaluations += 1
        try:
            kernels.cc_compile(source, wd, "besselprobe", strict_c17=True)
            run_.count("bessel-probe:strict-c17-build-ok")
        except kernels.CompileError as e:
            first = _cc_first_error(e.stderr)
            if "implicit declaration of function" in first and re.search(r"\b[jy]n\b", first.split("implicit declaration of function")[1]):
                run_.fail(f"{PROP}:bessel-posix-undeclared", f"bessel_J(1, f)*v*dx: the generated C calls jn(), which <math.h> does not declare under -std=c17: {first}",
                          {"spec": BESSEL_PROBE, "strict_c17": True}, bucket=f"{PROP}:bessel-posix-undeclared")
            else:
                run_.fail(f"{PROP}:bessel-probe:{_cc_signature(e.stderr)}", f"Bessel probe does not compile: {first}", {"spec": BESSEL_PROBE, "strict_c17": True})


def shard(shard, nshards, n, seed):
    res = ShardResult()
    with scratch(f"vf-c19-{shard}-") as wd:
        # (the third family: cell-integral forms over two meshes of one cell type with several rules per subdomain)
        sup = st.one_of(strategies.form_specs(P_SUP), strategies.form_specs(P_SUP), strategies.expr_specs(),
                        strategies.form_specs(dict(P_SUP, measures=["dx"], p_mesh2=0.7, max_integrals=3)))
        drive(sup, lambda s: evaluate_supported(s, wd), n, (PROP, seed, shard, "sup"), res, shrink_calls=30)
        drive(wild_cases(), lambda c: evaluate_supported(c["spec"], wd, options=c["options"], wild=c["spec"].get("_wild")), n, (PROP, seed, shard, "wild"), res, shrink_calls=30)
    return res


def run(tier: str) -> int:
    run_ = Run(PROP, tier, "exploration", RULE)
    # (3) exhaustive rule enumeration
    rules = all_rules()
    pairs, npairs = collision_pairs(rules)
    run_.extra["rules_enumerated"] = {c: len(v) for c, v in rules.items()}
    run_.extra["rule_pairs_examined"] = npairs
    run_.extra["rule_pairs_sharing_an_id"] = [[c, rid, list(a[:4]), list(b[:4])] for c, rid, a, b in pairs]
    run_.extra["rule_pair_enumeration_exhaustive"] = True
    run_.evaluations += npairs
    for c, v in rules.items():
        for digest in v:
            run_.nontrivial.add(f"rule:{c}:{digest[:12]}")
    for cell, rid, a, b, status, what in pmap(check_pair, [(c, rid, a, b, None) for c, rid, a, b in pairs]):
        if status == "violation":
            run_.fail(f"{PROP}:rule-id-collision:{cell}:{a}:{b}", f"rules {a} and {b} on {cell} share the id {rid}: {what}",
                      {"spec": pair_form_spec(cell, a + (rid,), b + (rid,))}, bucket=f"{PROP}:rule-id-collision")
    # (3b) rules of equal size in one kernel (per-loop temporaries must not be keyed by the number of points)
    ss = same_size_pairs(rules, per_size=1 if tier == "quick" else 4)
    run_.extra["same_size_rule_pairs_compiled"] = len(ss)
    for cell, n, a, b, status, what in pmap(check_pair, [(c, n, a, b, "same-integrand") for c, n, a, b in ss]):
        run_.evaluations += 1
        run_.nontrivial.add(f"samesize:{cell}:{a[:4]}:{b[:4]}")
        run_.count("same-size-pair:" + status)
        if status == "violation":
            run_.fail(f"{PROP}:same-size-rules:{cell}:{a[:4]}:{b[:4]}", f"rules {a[:4]} and {b[:4]} on {cell} (both {n} points) in one kernel: {what}",
                      {"spec": pair_form_spec(cell, tuple(a) + (None,), tuple(b) + (None,), same_integrand=True)}, bucket=f"{PROP}:same-size-rules")
    probe_bessel_strict_c17(run_)
    n = 8 if tier == "quick" else thorough(80)
    for part in run_shards(shard, 16, n=n, seed=verif_seed()):
        run_.merge(part)
    run_.assumptions = [
        "'supported' is not inferred from UFL's vocabulary: a Python exception before the compiler is an allowed outcome for every input; only compiler "
        "errors and built kernels that disagree with the reference are violations",
        "gcc -std=c17 -Wall is the C17 compiler; warnings are not judged",
    ]
    return run_.finish()


def replay(doc) -> int:
    rp = doc["replay"]
    if rp.get("strict_c17"):
        r = Run(PROP, "quick")
        probe_bessel_strict_c17(r)
        for f in r.failures:
            print("violation", f["what"])
            print(f"VIOLATION property={PROP} replay=(replayed)")
        return 1 if r.failures else 0
    with scratch("vf-replay-") as wd:
        o = evaluate_supported(rp["spec"], wd, options=rp.get("options"), wild=rp.get("wild"))
    print(o.status, o.what)
    if o.status == "violation":
        print(f"VIOLATION property={PROP} replay=(replayed)")
        return 1
    return 0
