"""C01  Cell-integral kernels compute the form's element tensor (DESIGN.md section 5, C01)."""

from __future__ import annotations

from .. import formcheck, strategies
from ..common import Run, ShardResult, run_shards, scratch, verif_seed
from ..common import thorough  # noqa: E402
from ..hyp import drive

PROP = "C01"
RULE = (
    "Hypothesis grammar-generated cell-integral forms plus instances of 15 standard-form templates (arity 0/1/2; all cells; element pool incl. blocked/"
    "symmetric/mixed/enriched/Piola/real; affine, degree-2 and manifold geometry; 1-3 integrals with own "
    "quadrature metadata; quadrature-element coefficients; Bessel functions; adjoint/action/replace/derivative; arguments inside "
    "conditionals; factors in the conjugated slot) x 2 random input sets x scalar type; a corpus of minimised past failures is replayed first; oracle: independent numpy reference evaluator "
    "with propagated error bound. Non-trivial = form has a coefficient or argument AND (non-affine or "
    "non-simplex cell, non-P/DG element, >=2 distinct rules, manifold, or a derivative/tensor operator); "
    "distinct by spec hash."
)

PROFILE = {"measures": ["dx"], "ids": "simple", "bessel": True, "p_qelement": 0.1, "p_transform": 0.25, "p_derivative": 0.1, "p_mesh2": 0.08}


def shard(shard, nshards, n, tier, seed):
    res = ShardResult()
    with scratch(f"vf-c01-{shard}-") as wd:
        types = ["float64", "float64", "float32"]

        def evaluate(spec):
            st = types[spec["data_seed"] % len(types)]
            o = formcheck.evaluate_form_spec(spec, wd, itypes=("cell",), scalar_type=st, prop=PROP)
            o.classes.append("scalar:" + st)
            return o

        def evaluate_complex(spec):
            st = ["complex128", "complex64"][spec["data_seed"] % 2]
            o = formcheck.evaluate_form_spec(spec, wd, itypes=("cell",), scalar_type=st, prop=PROP)
            o.classes.append("scalar:" + st)
            o.classes.append("complex-grammar")
            return o

        nreal = max(1, int(n * 0.8))
        drive(strategies.forms(dict(PROFILE, int_base_pow=True)), evaluate, nreal, (PROP, seed, shard, "real"), res)
        drive(strategies.form_specs(dict(PROFILE, complex=True)), evaluate_complex, max(1, n - nreal), (PROP, seed, shard, "cplx"), res)
    return res


def replay_corpus(run_):
    """Minimised past failures (corpus/C01/*.json: a spec, or {"spec":..., "scalar_type":...}) are re-evaluated first."""
    import json

    from ..common import VERIF

    files = sorted((VERIF / "corpus" / PROP).glob("*.json"))
    with scratch("vf-c01-corpus-") as wd:
        for f in files:
            doc = json.loads(f.read_text())
            spec = doc.get("spec", doc)
            for st in ([doc["scalar_type"]] if "scalar_type" in doc else ["float64", "float32"]):
                o = formcheck.evaluate_form_spec(spec, wd / (f.stem + st), itypes=("cell",), scalar_type=st, prop=PROP)
                run_.case(f"corpus:{f.stem}:{st}", o.status == "ok", classes=["corpus", "status:" + o.status])
                if o.status == "violation":
                    run_.fail(f"{PROP}:corpus:{f.stem}", f"corpus case {f.name} ({st}): {o.what}", o.replay, bucket=f"{PROP}:corpus:{f.stem}")
    run_.extra["corpus_cases_replayed"] = len(files)


def run(tier: str) -> int:
    run_ = Run(PROP, tier, "exploration", RULE)
    replay_corpus(run_)
    n = 10 if tier == "quick" else thorough(100)
    nshards = 16
    for part in run_shards(shard, nshards, n=n, tier=tier, seed=verif_seed()):
        run_.merge(part)
    run_.assumptions = [
        "UFL compute_form_data (pull-backs, scaling, geometry lowering) and basix tabulation/quadrature are trusted",
        "tolerance = 8 x propagated first-order error bound incl. table tolerances max(option,1e-6/1e-9)",
        "rejections and C-compiler errors are counted here and judged by C19",
    ]
    return run_.finish()


def replay(doc) -> int:
    from ..common import scratch as _scratch

    rp = doc["replay"]
    with _scratch("vf-replay-") as wd:
        o = formcheck.evaluate_form_spec(rp["spec"], wd, itypes=(rp.get("itype", "cell"),), scalar_type=rp["scalar_type"],
                                         options=rp.get("options"), prop=PROP)
    print(o.status, o.what)
    if o.status == "violation":
        print(f"VIOLATION property={PROP} replay=(replayed)")
        return 1
    return 0
