"""C14  Concurrent JIT requests on a shared cache all get one complete, correct module (DESIGN.md 5, C14)."""

from __future__ import annotations

import itertools

from hypothesis import strategies as st

from .. import sched
from ..strategies import prob as strategies_prob
from ..common import Run, ShardResult, run_shards, scratch, spec_hash, verif_seed
from ..common import thorough  # noqa: E402
from ..hyp import Outcome, drive

PROP = "C14"
RULE = (
    "N in {2,3} child processes issue the same JIT request on one fresh cache directory under a harness-owned schedule: every "
    "file-system / sleep / compiler-spawn / dlopen primitive touching the cache is a sync point that blocks until the controller "
    "grants it, so the history is a total order chosen by a Hypothesis-generated cyclic schedule (sleep is a pure sync point, the "
    "JIT timeout is counted in polls); afterwards a late request runs alone. Invariants over the recorded history: exactly one "
    "process spawns the C compiler; no waiter's dlopen precedes the builder's link step and ready-marker creation; no process ends "
    "with an exception; every process's kernel gives the reference tensor; the late request does not compile and is correct; the "
    "cache holds lock, marker, object and library. Non-trivial = a schedule in which another process attempts the lock between the "
    "builder's lock creation and its marker creation; distinct by history hash. Half of the three-process cases contain an impatient "
    "request (timeout of 1-3 polls) that gives up while the builder holds the lock, followed by a third request: the time-out may raise "
    "in that process only and all other invariants must still hold. A share of the cases races two *different* requests (the same form "
    "with part='full' and part='diagonal') on one cache directory: one compilation per distinct request, every process must get its own module. The thorough tier additionally enumerates all "
    "interleavings of two processes up to the waiter's first poll."
)


@st.composite
def cases(draw):
    n = draw(st.sampled_from([2, 2, 3]))
    length = draw(st.integers(4, 24))
    schedule = [draw(st.integers(0, n - 1)) for _ in range(length)]
    for i in range(n):  # fairness: every process occurs in the cycle
        if i not in schedule:
            schedule.append(i)
    case = {"n": n, "schedule": schedule, "form": draw(st.sampled_from(["mass_p1", "stiff_p1_interval"]))}
    if "impatient" not in case and case["form"] == "mass_p1" and strategies_prob(draw, 0.3):
        # two *different* requests (same form, part='full' and part='diagonal') race on one cache directory: each must get its own module
        # ... or the same form for different scalar types
        pool = draw(st.sampled_from([["mass_p1", "mass_p1_diag"], ["mass_p1", "mass_p1@complex128", "mass_p1@float32", "mass_p1@complex64"],
                                     ["mass_p1_diag", "mass_p1_diag@complex128", "mass_p1@complex128"]]))
        case["forms"] = [draw(st.sampled_from(pool)) for _ in range(n)]
        if len(set(case["forms"])) == 1:
            case["forms"][-1] = next(f for f in pool if f != case["forms"][0])
        return case
    if n == 3 and draw(st.booleans()):
        # an impatient request: process 1 gives up after 1-3 polls while process 0 (k sync points into its build) still holds the
        # lock; process 2 arrives afterwards.  The time-out may raise in process 1 but must not disturb the others.
        k = draw(st.integers(2, 9))
        polls = draw(st.integers(1, 3))
        case["impatient"] = {"who": 1, "timeout": polls}
        case["schedule"] = [0] * k + [1] * (2 * polls + 4) + schedule
    return case


def check_history(hist, kids, n, impatient=None):
    """Returns None or (kind, message).  `impatient`: index of a process that is allowed to end with TimeoutError."""
    compilers = {i for i, t in hist if t.startswith("spawn:cc")}
    if len(compilers) != 1:
        return ("compile-count", f"{len(compilers)} processes spawned the C compiler (expected exactly one): {sorted(compilers)}")
    builder = next(iter(compilers))
    idx_ld = max((k for k, (i, t) in enumerate(hist) if i == builder and t.startswith("spawn:ld")), default=None)
    idx_marker = max((k for k, (i, t) in enumerate(hist) if i == builder and t.startswith("open:c.cached:x")), default=None)
    for k, (i, t) in enumerate(hist):
        if t == "dlopen" and i != builder:
            if idx_ld is None or idx_marker is None or k < idx_ld or k < idx_marker:
                return ("early-load", f"process {i} loads the module at step {k} before the builder {builder} finished linking (step {idx_ld}) "
                        f"and created the ready marker (step {idx_marker})")
    for kid in kids:
        if not kid.results:
            return ("no-result", f"process {kid.idx} ended without a result (exit {kid.p.returncode})")
        r = kid.results[0]
        if r["status"] != "ok" and kid.idx == impatient and r.get("exc") == "TimeoutError":
            continue  # "within the timeout": giving up is the documented behaviour of a request whose timeout expires
        if r["status"] != "ok":
            return ("exception", f"process {kid.idx} raised {r.get('exc')}: {r.get('msg')}")
        if not r["correct"]:
            return ("wrong-kernel", f"process {kid.idx} got a kernel computing {r['total']}")
        if r["compiled"] != (kid.idx == builder):
            return ("compile-flag", f"process {kid.idx} reports compiled={r['compiled']} but the builder is {builder}")
    return None


def evaluate(case, wd):
    h = spec_hash(case)
    import os as _os

    d = wd / f"{h}_{len(_os.listdir(wd))}"
    d.mkdir()
    job = {"cache": str(d / "cache"), "requests": [{"form": case["form"], "timeout": 400}]}
    jobs = [job] * case["n"]
    if case.get("forms"):
        jobs = [{"cache": str(d / "cache"), "requests": [{"form": fn, "timeout": 400}]} for fn in case["forms"]]
        classes_extra = ["mixed-requests"]
    imp = case.get("impatient")
    if imp:
        jobs = list(jobs)
        jobs[imp["who"]] = {"cache": str(d / "cache"), "requests": [{"form": case["form"], "timeout": int(imp["timeout"])}]}
    hist, kids = sched.run_schedule(jobs, case["schedule"], d)
    classes = [f"n:{case['n']}", f"form:{case['form']}"]
    if imp:
        r_imp = kids[imp["who"]].results[0] if kids[imp["who"]].results else {}
        classes.append("impatient:" + ("timed-out" if r_imp.get("exc") == "TimeoutError" else str(r_imp.get("status"))))
    replay = {"case": case, "history": [f"{i}:{t}" for i, t in hist]}
    sample = {"n": case["n"], "schedule": case["schedule"], "history": " | ".join(f"{i}:{t}" for i, t in hist)[:900]}

    def viol(kind, what):
        return Outcome("violation", case_id=h, classes=classes, key=f"{PROP}:{kind}:{spec_hash([i for i, _ in hist])}", bucket=f"{PROP}:{kind}", what=what + " | history: " +
                       " | ".join(f"{i}:{t}" for i, t in hist)[:1200], replay=replay, sample=sample)

    if case.get("forms"):
        return evaluate_mixed(case, d, hist, kids, classes, viol, sample, h)
    bad = check_history(hist, kids, case["n"], impatient=imp["who"] if imp else None)
    if bad:
        return viol(*bad)
    # late request
    late, err = sched.run_plain(dict(job, requests=[{"form": case["form"], "timeout": 5}]), d, "late")
    if late is None:
        return Outcome("harness-error", case_id=h, classes=classes, what=err)
    r = late[0]
    if r["status"] != "ok" or not r["correct"] or r["compiled"]:
        return viol("late-request", f"late request: {r}")
    need = {"c", "c.cached", "o"}
    if not need <= set(r["files"]) or not any(f.endswith(".so") for f in r["files"]):
        return viol("cache-contents", f"cache directory holds {r['files']}")
    # non-trivial: another process attempts the lock inside the builder's critical section
    builder = next(i for i, t in hist if t.startswith("spawn:cc"))
    lock = min(k for k, (i, t) in enumerate(hist) if i == builder and t == "open:c:x")
    marker = max(k for k, (i, t) in enumerate(hist) if i == builder and t.startswith("open:c.cached:x"))
    inside = any(lock < k < marker and i != builder and t == "open:c:x" for k, (i, t) in enumerate(hist))
    o = Outcome("ok", case_id=spec_hash([i for i, _ in hist]), nontrivial=inside, classes=classes + (["lock-attempt-inside-critical-section"] if inside else []), sample=sample)
    return o


def evaluate_mixed(case, d, hist, kids, classes, viol, sample, h):
    """Different requests racing on one cache directory: one compilation per distinct request, every process gets *its* module."""
    classes = classes + ["mixed-requests"]
    compilers = sorted({i for i, t in hist if t.startswith("spawn:cc")})
    distinct = sorted(set(case["forms"]))
    for kid in kids:
        if not kid.results:
            return viol("no-result", f"process {kid.idx} ended without a result (exit {kid.p.returncode})")
        r = kid.results[0]
        if r["status"] != "ok":
            return viol("exception", f"process {kid.idx} (request {case['forms'][kid.idx]}) raised {r.get('exc')}: {r.get('msg')}")
        if not r["correct"]:
            return viol("wrong-kernel", f"process {kid.idx} asked for {case['forms'][kid.idx]} but its kernel computes {r['total']} {r.get('note', '')} (another request's module)")
    if len(compilers) != len(distinct):
        return viol("compile-count", f"{len(compilers)} processes compiled for {len(distinct)} distinct requests {distinct}: {compilers}")
    for fn in distinct:
        late, err = sched.run_plain({"cache": str(d / "cache"), "requests": [{"form": fn, "timeout": 5}]}, d, "late_" + fn)
        if late is None:
            return Outcome("harness-error", case_id=h, classes=classes, what=err)
        r = late[0]
        if r["status"] != "ok" or not r["correct"] or r["compiled"]:
            return viol("late-request", f"late request for {fn}: {r}")
    return Outcome("ok", case_id=spec_hash([case["forms"], [i for i, _ in hist]]), nontrivial=True, classes=classes, sample=sample)


def enumerate_two(form, wd, limit):
    """All interleavings of two processes up to the point where only one is left (stateless exploration by prefix flipping)."""
    seen = set()
    todo = [[]]
    results = []
    while todo and len(results) < limit:
        prefix = todo.pop()
        d = wd / f"enum{len(results)}"
        d.mkdir()
        job = {"cache": str(d / "cache"), "requests": [{"form": form, "timeout": 400}]}
        sched_list = prefix + [0] * 200  # default policy after the prefix: process 0 first
        hist, kids = sched.run_schedule([job, job], sched_list, d)
        choice = tuple(i for i, _ in hist)
        if choice in seen:
            continue
        seen.add(choice)
        results.append((hist, kids))
        # branch: at every position >= len(prefix) where the other process was also alive, flip the choice
        alive_until = [max((k for k, (i, _) in enumerate(hist) if i == p), default=-1) for p in (0, 1)]
        for k in range(len(prefix), len(hist)):
            other = 1 - hist[k][0]
            if k <= alive_until[other]:
                todo.append(list(choice[:k]) + [other])
    return results, not todo


def shard(shard, nshards, n, tier, seed):
    res = ShardResult()
    with scratch(f"vf-c14-{shard}-") as wd:
        drive(cases(), lambda c: evaluate(c, wd), n, (PROP, seed, shard), res, shrink_calls=6, shrink_seconds=60, max_buckets=2)
        if tier == "thorough" and shard < 2:
            form = ["mass_p1", "stiff_p1_interval"][shard]
            runs, complete = enumerate_two(form, wd, 400)
            res.count("enumerated-interleavings", len(runs))
            res.count("enumeration-complete", int(complete))
            for hist, kids in runs:
                res.evaluations += 1
                bad = check_history(hist, kids, 2)
                res.nontrivial.add(spec_hash([i for i, _ in hist]))
                if bad:
                    res.fail(f"{PROP}:{bad[0]}:{spec_hash([i for i, _ in hist])}", bad[1], {"history": [f"{i}:{t}" for i, t in hist]}, bucket=f"{PROP}:{bad[0]}")
    return res


def run(tier: str) -> int:
    run_ = Run(PROP, tier, "exploration", RULE)
    n = 3 if tier == "quick" else thorough(16)
    for part in run_shards(shard, 16, n=n, tier=tier, seed=verif_seed()):
        run_.merge(part)
    run_.assumptions = [
        "interleavings are controlled at the granularity of the harness's sync points (open/rename/replace/exists/sleep/compiler spawn/dlopen); "
        "what happens inside the C compiler or the dynamic loader is not interleaved",
        "schedules are fair (every process occurs in the cycle) and the timeout is counted in polls, so no TimeoutError is expected",
    ]
    return run_.finish()


def replay(doc) -> int:
    with scratch("vf-replay-") as wd:
        o = evaluate(doc["replay"]["case"], wd)
    print(o.status, o.what)
    if o.status == "violation":
        print(f"VIOLATION property={PROP} replay=(replayed)")
        return 1
    return 0
