"""C20  The command-line compiler emits a self-consistent header/source pair (DESIGN.md 5, C20)."""

from __future__ import annotations

import json
import os
import re
import subprocess
import sys
from pathlib import Path

import cffi
import numpy as np
from hypothesis import strategies as st

from .. import formcheck, inputs, kernels, procs, specs, strategies
from ..common import Run, ShardResult, run_shards, scratch, spec_hash, verif_seed
from ..common import thorough  # noqa: E402
from ..hyp import Outcome, drive

PROP = "C20"
RULE = (
    "Generated UFL files (1-3 named forms from the form grammar - or tensor-product forms when sum_factorization is in play -, "
    "0-2 named expressions, file stems that need sanitising) x generated option sources (command-line flags, $PWD/ffcx_options.json, "
    "$XDG_CONFIG_HOME/ffcx/ffcx_options.json, each a partial assignment of scalar_type, sum_factorization, table_rtol, table_atol, "
    "epsilon, verbosity) x -o / -n / -d variants; `python -m ffcx` runs in a fresh child with its own cwd and config home. Oracles: "
    "<stem>.h and <stem>.c exist; the source compiles stand-alone with gcc -std=c17 against ufcx.h; every object the header declares "
    "is defined in the object file (nm); the shared library loads and every form_<prefix>_<name> / expression_<prefix>_<name> alias "
    "points to an object with the right signature/rank/points; kernels reached through the aliases equal the kernels compiled "
    "in-process from the same objects with the *effective* options, where effective = the harness's own merge (CLI > PWD file > user "
    "file > defaults), also visible in which tabulate_tensor_<type> pointer is set, in the options banner and in the presence of "
    "tensor-factor tables. Non-trivial = >= 2 option sources disagree on a key, or >= 2 named objects; distinct by case hash."
)
P_FORMS = {"measures": ["dx", "ds"], "ids": "simple", "max_integrals": 2, "depth": 1, "maxdeg": 2, "max_qdeg": 3, "p_scheme": 0.0, "ncoef": (0, 2), "same_args": True}
P_TP = {"cells": ["quadrilateral"], "measures": ["dx"], "tp": True, "maxdeg": 2, "max_integrals": 1, "depth": 1, "manifold": 0.0, "min_qdeg": 2,
        "max_qdeg": 3, "p_scheme": 0.0, "p_vertex": 0.0, "ncoef": (0, 1), "ids": "simple"}
DEFAULTS = {"scalar_type": "float64", "sum_factorization": False, "table_rtol": 1e-6, "table_atol": 1e-9, "epsilon": 1e-14, "verbosity": 30,
            "language": "C", "part": "full"}  # ffcx.options.FFCX_DEFAULT_OPTIONS as documented in the README / options.py docstrings
STEMS = ["forms", "my-forms.v2", "Poisson 2D", "a_b", "x9.y.z", "__w__"]
FORM_NAMES = ["a", "L", "M"]


def sanitise(name):
    s = re.sub(r"[^A-Za-z0-9_]", "!", Path(name).stem)
    return re.sub(r"!+", "_", s)


@st.composite
def option_source(draw, allow_sumfact):
    keys = ["scalar_type", "table_rtol", "table_atol", "epsilon", "verbosity", "part"] + (["sum_factorization"] if allow_sumfact else [])
    out = {}
    for k in keys:
        if draw(st.integers(0, 2)) == 0:
            if k == "scalar_type":
                out[k] = draw(st.sampled_from(["float32", "float64", "complex128"]))
            elif k == "sum_factorization":
                out[k] = draw(st.booleans())
            elif k == "part":
                out[k] = draw(st.sampled_from(["full", "diagonal", "diagonal"]))
            elif k == "verbosity":
                out[k] = draw(st.sampled_from([30, 40, 50, 0]))
            elif k == "epsilon":
                out[k] = draw(st.sampled_from([1e-14, 1e-12, 0.0]))
            else:
                # 0 is a legitimate setting (no clamping / exact comparison) and is falsy in Python
                out[k] = draw(st.sampled_from([1e-3, 1e-6, 1e-9, 1e-12, 0.0]))
    return out


@st.composite
def cases(draw):
    tp = draw(st.integers(0, 3)) == 0
    nforms = draw(st.integers(1, 3))
    forms = [draw(strategies.form_specs(P_TP) if tp else strategies.forms(P_FORMS)) for _ in range(nforms)]
    exprs = [] if tp else [draw(strategies.expr_specs({"maxdeg": 2, "p_facet": 0.0})) for _ in range(draw(st.integers(0, 2)))]
    stem = draw(st.sampled_from(STEMS))
    cli = draw(option_source(tp))
    # a store_true flag can only be given as True on the command line
    if "sum_factorization" in cli and not cli["sum_factorization"]:
        del cli["sum_factorization"]
    pwd = draw(st.one_of(st.none(), option_source(tp)))
    xdg = draw(st.one_of(st.none(), option_source(tp)))
    layout = {"outfile": draw(st.sampled_from([None, None, "out_x", "gen.code"])), "namespace": draw(st.sampled_from([None, None, "ns1"])),
              "dir": draw(st.sampled_from([None, "build"]))}
    return {"forms": [strategies.strip_meta(f) for f in forms], "exprs": [strategies.strip_meta(e) for e in exprs], "stem": stem, "cli": cli,
            "pwd": pwd, "xdg": xdg, "layout": layout, "data_seed": draw(st.integers(0, 2**31 - 1))}


def ufl_file_text(case):
    parts = [specs.PRELUDE]
    fnames = []
    for k, f in enumerate(case["forms"]):
        name = FORM_NAMES[k]
        parts.append(f"# ---- form {name}\n" + specs.to_source(f, form_name=name, with_prelude=False))
        fnames.append(name)
    enames = []
    for k, e in enumerate(case["exprs"]):
        name = f"ex{k}"
        parts.append(f"# ---- expression {name}\n" + specs.to_source(e, form_name=name, with_prelude=False))
        enames.append(name)
    parts.append("forms = [" + ", ".join(fnames) + "]\n")
    if enames:
        parts.append("expressions = [" + ", ".join(f"({n}_expr, {n}_points)" for n in enames) + "]\n")
    return "\n".join(parts), fnames, enames


def effective_options(case):
    eff = dict(DEFAULTS)
    for src in (case["xdg"], case["pwd"], case["cli"]):
        if src:
            eff.update(src)
    return eff


def evaluate(case, wd):
    h = spec_hash(case)
    wd = Path(wd) / h
    wd.mkdir(parents=True, exist_ok=True)
    classes = [f"forms:{len(case['forms'])}", f"exprs:{len(case['exprs'])}", f"stem:{case['stem']}"]
    text, fnames, enames = ufl_file_text(case)
    fname = case["stem"] + ".py"
    (wd / fname).write_text(text)
    xdg = wd / "xdg"
    (xdg / "ffcx").mkdir(parents=True)
    if case["xdg"] is not None:
        (xdg / "ffcx" / "ffcx_options.json").write_text(json.dumps(case["xdg"]))
        classes.append("source:xdg")
    if case["pwd"] is not None:
        (wd / "ffcx_options.json").write_text(json.dumps(case["pwd"]))
        classes.append("source:pwd")
    if case["cli"]:
        classes.append("source:cli")
    args = []
    for k, v in case["cli"].items():
        args += [f"--{k}"] if isinstance(v, bool) else [f"--{k}", str(v)]
    lay = case["layout"]
    outdir = wd
    if lay["dir"]:
        (wd / lay["dir"]).mkdir()
        args += ["-d", lay["dir"]]
        outdir = wd / lay["dir"]
    use_i = lay["outfile"] is not None or lay["namespace"] is not None
    if lay["outfile"] is not None:
        args += ["-o", lay["outfile"]]
    if lay["namespace"] is not None:
        args += ["-n", lay["namespace"]]
    args += (["-i", fname] if use_i else [fname])
    env = procs.child_env(0, {"XDG_CONFIG_HOME": str(xdg), "HOME": str(wd)})
    r = subprocess.run([sys.executable, "-m", "ffcx", *args], cwd=str(wd), env=env, capture_output=True, text=True, timeout=900)
    replay = {"case": case, "ufl_file": text, "argv": args}
    eff = effective_options(case)
    sample = {"argv": args, "pwd": case["pwd"], "xdg": case["xdg"], "stem": case["stem"], "effective": {k: eff[k] for k in ("scalar_type", "sum_factorization", "table_rtol")}}

    def viol(kind, what):
        return Outcome("violation", case_id=h, classes=classes, key=f"{PROP}:{kind}:{h}", bucket=f"{PROP}:{kind}", what=what, replay=replay, sample=sample)

    # would the in-process compilation with the effective options accept these objects?
    builts = [specs.build(f, form_name=FORM_NAMES[k]) for k, f in enumerate(case["forms"])]
    ebuilts = [specs.build(e, form_name=f"ex{k}") for k, e in enumerate(case["exprs"])]
    objects = [b.obj for b in builts] + [b.obj for b in ebuilts]
    api_opts = {k: eff[k] for k in ("scalar_type", "sum_factorization", "table_rtol", "table_atol", "epsilon", "verbosity", "part")}
    try:
        ref_mod = kernels.compile_module(objects, api_opts, workdir=wd / "api", name="api")
        api_error = None
    except kernels.Rejected as e:
        api_error = str(e)
    except kernels.CompileError as e:
        return Outcome("cc-error", case_id=h, classes=classes, what=e.stderr[-300:])
    if r.returncode != 0:
        if api_error is not None:
            return Outcome("rejected", case_id=h, classes=classes + ["both-reject"], what=api_error[:200])
        return viol("cli-fails", f"`python -m ffcx {' '.join(args)}` exits {r.returncode} although the same objects compile through the API with the effective "
                    f"options {api_opts}: {r.stderr[-600:]}")
    if api_error is not None:
        return viol("cli-accepts", f"the command line compiled objects that the API rejects with the effective options {api_opts}: {api_error[:300]} "
                    f"(the command line did not apply the effective options)")
    stem = lay["outfile"] if lay["outfile"] is not None else sanitise(fname)
    prefix = lay["namespace"] if lay["namespace"] is not None else sanitise(fname)
    hfile, cfile = outdir / f"{stem}.h", outdir / f"{stem}.c"
    if not (hfile.exists() and cfile.exists()):
        return viol("files", f"expected {hfile.name} and {cfile.name} in {outdir.name or '.'}; directory holds {sorted(p.name for p in outdir.iterdir())[:12]}")
    header, source = hfile.read_text(), cfile.read_text()
    # stand-alone compile
    obj = wd / "cli.o"
    inc = kernels.include_dir()
    rc = subprocess.run(["gcc", "-std=c17", "-O1", "-w", "-fPIC", f"-I{inc}", f"-I{outdir}", "-c", str(cfile), "-o", str(obj)], capture_output=True, text=True)
    if rc.returncode != 0:
        return viol("source-does-not-compile", f"gcc -std=c17 -c {cfile.name} fails: {rc.stderr[-600:]}")
    rh = subprocess.run(["gcc", "-std=c17", "-fsyntax-only", "-w", f"-I{inc}", "-x", "c", str(hfile)], capture_output=True, text=True)
    if rh.returncode != 0:
        return viol("header-does-not-compile", f"header {hfile.name} is not valid C: {rh.stderr[-400:]}")
    nm = subprocess.run(["nm", str(obj)], capture_output=True, text=True).stdout
    defined = {l.split()[-1] for l in nm.split("\n") if len(l.split()) >= 3 and l.split()[-2] in "DdBbRrTtC"}
    declared = re.findall(r"extern\s+ufcx_\w+\s*\*?\s*(\w+)\s*;", header)
    for d in declared:
        if d not in defined:
            return viol("declared-not-defined", f"{hfile.name} declares {d} but {cfile.name} does not define it")
    # aliases
    # an object bound to several names in the file is reachable under one of them (UFL keeps the alphabetically last)
    file_ns: dict = {}
    exec(compile(text, "<ufl file>", "exec"), file_ns)
    ealias = []
    for n in enames:
        eobj = file_ns[f"{n}_expr"]
        cands = [f"expression_{prefix}_{nm}" for nm, v in file_ns.items() if v is eobj]
        hit = [c for c in cands if c in declared]
        if not hit:
            return viol("alias-missing", f"no alias for expression {n}_expr (candidates {cands}) is declared in the header "
                        f"(declared: {[d for d in declared if d.startswith('expression_')][:8]})")
        ealias.append(hit[0])
    for n in fnames:
        if f"form_{prefix}_{n}" not in declared:
            return viol("alias-missing", f"alias form_{prefix}_{n} is not declared in the header (declared: {[d for d in declared if d.startswith('form_')][:8]})")
    so = wd / "cli.so"
    rs = subprocess.run(["gcc", "-shared", str(obj), "-o", str(so), "-lm"], capture_output=True, text=True)
    if rs.returncode != 0:
        return viol("link", rs.stderr[-400:])
    import ffcx.codegeneration.jit as J

    ffi = cffi.FFI()
    decl = J.UFC_HEADER_DECL.format("") + J.UFC_INTEGRAL_DECL + J.UFC_FORM_DECL + J.UFC_EXPRESSION_DECL
    for n in fnames:
        decl += f"extern ufcx_form* form_{prefix}_{n};\n"
    for al in dict.fromkeys(ealias):
        decl += f"extern ufcx_expression* {al};\n"
    ffi.cdef(decl)
    lib = ffi.dlopen(str(so))
    st_eff = eff["scalar_type"]
    # options banner
    m = re.search(r"'scalar_type':\s*'(\w+)'", header)
    if not m or m.group(1) != st_eff:
        return viol("options", f"effective scalar_type is {st_eff} (cli={case['cli']}, pwd={case['pwd']}, xdg={case['xdg']}) but the generated banner says "
                    f"{m.group(1) if m else None}")
    for key in ("sum_factorization", "table_rtol", "table_atol", "epsilon", "verbosity", "part"):
        m = re.search(r"'%s':\s*([^,}\n]+)" % key, header)
        got = m.group(1).strip().strip("'\"") if m else None
        exp = eff[key]
        ok = got is not None and (str(exp) == got or (not isinstance(exp, bool) and _num_eq(got, exp)))
        if not ok:
            return viol("options", f"effective {key} is {exp!r} (cli={case['cli']}, pwd={case['pwd']}, xdg={case['xdg']}) but the generated code was built with {got}")
    any_tp = any(f.get("tp") for f in case["forms"])
    if any_tp and eff["sum_factorization"] != ("FE_TF" in source):
        return viol("options", f"effective sum_factorization={eff['sum_factorization']} but tensor-factor tables are {'present' if 'FE_TF' in source else 'absent'}")
    # forms through aliases vs API path
    for k, (f, b) in enumerate(zip(case["forms"], builts)):
        cform = getattr(lib, f"form_{prefix}_{fnames[k]}")[0]
        sig = ffi.string(cform.signature).decode()
        if sig != b.form.signature():
            return viol("alias-wrong-object", f"alias form_{prefix}_{fnames[k]} points to a form with another signature")
        spec = dict(f, data_seed=case["data_seed"])
        fr_cli = formcheck.FormRunner(spec, wd, scalar_type=st_eff, options=api_opts, name="x", built=b)

        class _M:
            pass

        mm = _M()
        mm.ffi, mm.lib, mm.objects, mm.source = ffi, lib, [cform], source
        fr_cli.attach(mm, 0)
        fr_api = formcheck.FormRunner(spec, wd, scalar_type=st_eff, options=api_opts, name="y", built=b).attach(ref_mod, k)
        for stn in ("float32", "float64", "complex64", "complex128"):
            for i in range(fr_cli.desc["offsets"][5]):
                ptr = getattr(cform.form_integrals[i], f"tabulate_tensor_{stn}")
                if (ptr != ffi.NULL) != (stn == st_eff):
                    return viol("options", f"form {fnames[k]}: tabulate_tensor_{stn} is {'set' if ptr != ffi.NULL else 'NULL'} but the effective scalar type is {st_eff}")
        if fr_cli.desc["rank"] != fr_api.desc["rank"] or fr_cli.desc["ids"] != fr_api.desc["ids"] or fr_cli.desc["offsets"] != fr_api.desc["offsets"]:
            return viol("descriptor", f"form {fnames[k]}: descriptor differs between command line and API builds")
        data = inputs.FormData(b, case["data_seed"], complex_=fr_cli.complex)
        for itype, sid in fr_api.declared_groups():
            nent = formcheck.entity_count(f["cell"], itype)
            ent = (nent - 1, 0)
            diag = eff["part"] == "diagonal" and len(f["args"]) == 2
            A1, p1, n1, _ = fr_cli.run_group(itype, sid, data, entity=ent, diagonal=diag)
            A2, p2, n2, _ = fr_api.run_group(itype, sid, data, entity=ent, diagonal=diag)
            if A2 is None:
                continue
            if A1 is None or np.asarray(A1).tobytes() != np.asarray(A2).tobytes():
                d = float(np.nanmax(np.abs(np.asarray(A1) - np.asarray(A2)))) if A1 is not None else float("nan")
                return viol("kernel-differs", f"form {fnames[k]} ({itype},{sid}): the kernel from the command-line build differs from the API build with the same "
                            f"effective options (max diff {d:.3e})")
    for k, (e, b) in enumerate(zip(case["exprs"], ebuilts)):
        cexp = getattr(lib, ealias[k])[0]
        d1 = kernels.read_expression_descriptor(ffi, cexp)
        d2 = kernels.read_expression_descriptor(ref_mod.ffi, ref_mod.objects[len(builts) + k])
        for d_ in (d1, d2):  # names come from the file's variable names on the command line only
            d_.pop("coefficient_names", None)
            d_.pop("constant_names", None)
        if d1 != d2:
            return viol("alias-wrong-object", f"alias {ealias[k]}: descriptor differs from the API build: {d1} vs {d2}")
    disagree = False
    srcs = [s for s in (case["cli"], case["pwd"], case["xdg"]) if s]
    for i in range(len(srcs)):
        for j in range(i + 1, len(srcs)):
            if any(k in srcs[j] and srcs[j][k] != v for k, v in srcs[i].items()):
                disagree = True
    return Outcome("ok", case_id=h, nontrivial=disagree or (len(fnames) + len(enames) >= 2), classes=classes + (["sources-disagree"] if disagree else []), sample=sample)


def _num_eq(text, val):
    try:
        return float(text) == float(val)
    except ValueError:
        return False


def shard(shard, nshards, n, seed):
    res = ShardResult()
    with scratch(f"vf-c20-{shard}-") as wd:
        drive(cases(), lambda c: evaluate(c, wd), n, (PROP, seed, shard), res, shrink_calls=20, shrink_seconds=120)
    return res


def run(tier: str) -> int:
    run_ = Run(PROP, tier, "exploration", RULE)
    n = 3 if tier == "quick" else thorough(16)
    for part in run_shards(shard, 16, n=n, seed=verif_seed()):
        run_.merge(part)
    run_.assumptions = [
        "effective options = harness's own merge CLI > $PWD/ffcx_options.json > $XDG_CONFIG_HOME/ffcx/ffcx_options.json > defaults",
        "a boolean store_true flag can only be *set* on the command line, so sum_factorization=False is never a command-line value",
        "the in-process reference build uses ffcx.compiler.compile_ufl_objects with the effective options (same code path the JIT uses)",
    ]
    return run_.finish()


def replay(doc) -> int:
    with scratch("vf-replay-") as wd:
        o = evaluate(doc["replay"]["case"], wd)
    print(o.status, o.what)
    if o.status == "violation":
        print(f"VIOLATION property={PROP} replay=(replayed)")
        return 1
    return 0
