"""C15  A failed or killed JIT build never poisons later requests or the process (DESIGN.md 5, C15)."""

from __future__ import annotations

import os
from pathlib import Path

from hypothesis import strategies as st

from .. import sched
from ..common import Run, ShardResult, run_shards, scratch, spec_hash, verif_seed
from ..common import thorough  # noqa: E402
from ..hyp import Outcome, drive

PROP = "C15"
RULE = (
    "Fault sequences on one cache directory: (a) code generation fails after the lock is taken (exception injected into "
    "compile_ufl_objects; a form FFCx rejects during IR computation); (b) the C compiler or the linker fails *transiently* (CC / "
    "LDSHARED wrapper scripts that fail while a flag file exists) - each followed by the same request again; (c) the building "
    "process is SIGKILLed at every one of its sync points (crash-point enumeration: start, lock creation, source write, rename, "
    "compiler spawn, linker spawn, marker creation, dlopen) or a waiting process is killed, each followed by a generated sequence of "
    "1-3 later requests, sequential or concurrent. Oracles: (a)/(b) the request raises, the lock file is gone and <module>.c.failed "
    "exists, logging.getLogger().handlers and sys.stdout/stderr are the objects found before the call, the repeated request "
    "compiles afresh without waiting (or, for a deterministic rejection, raises the same error immediately, never TimeoutError) and the "
    "requests after that successful rebuild are served from the cache; "
    "(c) every later request either returns a kernel computing the reference tensor or raises TimeoutError within the poll-counted "
    "timeout - never a wrong kernel, a loader error from a partial module, or a hang. Non-trivial = the fault lands after the lock "
    "was created; distinct by (fault kind, crash point, follow-up shape)."
)
BUILDER_POINTS = 9  # ordinals of the builder's sync points (0 = start ... 8 = dlopen)


def wrappers(d: Path):
    cc = d / "cc.sh"
    ld = d / "ld.sh"
    cc.write_text(f"#!/bin/sh\nif [ -e {d}/FAIL_CC ]; then echo 'injected compiler failure' >&2; exit 1; fi\nexec gcc \"$@\"\n")
    ld.write_text(f"#!/bin/sh\nif [ -e {d}/FAIL_LD ]; then echo 'injected linker failure' >&2; exit 1; fi\nexec gcc \"$@\"\n")
    os.chmod(cc, 0o755)
    os.chmod(ld, 0o755)
    return {"CC": str(cc), "LDSHARED": f"{ld} -shared"}


@st.composite
def cases(draw):
    kind = draw(st.sampled_from(["codegen-inject", "codegen-reject", "codegen-visualise", "cc-fail", "ld-fail", "kill-builder", "kill-builder",
                                 "kill-builder", "kill-waiter"]))
    c = {"kind": kind, "form": draw(st.sampled_from(["mass_p1", "stiff_p1_interval"]))}
    if kind == "codegen-inject":
        c["exc"] = draw(st.sampled_from(INJECT_EXC))
    if kind.startswith("kill"):
        c["point"] = draw(st.integers(0, BUILDER_POINTS - 1)) if kind == "kill-builder" else draw(st.integers(1, 3))
        c["followups"] = draw(st.integers(1, 3))
        c["concurrent"] = draw(st.booleans())
    return c


def evaluate(case, wd):
    h = spec_hash(case)
    d = Path(wd) / f"{h}_{len(os.listdir(wd))}"
    d.mkdir()
    cache = str(d / "cache")
    kind = case["kind"]
    classes = [f"fault:{kind}"]
    replay = {"case": case}

    def viol(k, what):
        return Outcome("violation", case_id=h, classes=classes, key=f"{PROP}:{k}:{h}", bucket=f"{PROP}:{kind}:{k}", what=what, replay=replay, sample={"case": case})

    def common_failure_checks(r, expect_exc=None):
        if r["status"] != "exc":
            return ("no-raise", f"the failing request did not raise: {r}")
        if expect_exc and r["exc"] not in expect_exc:
            return ("wrong-exception", f"the failing request raised {r['exc']}: {r['msg']}")
        if not r["handlers_restored"]:
            return ("handlers", "logging.getLogger().handlers differ from the handlers found before the failing request")
        if not r["stdout_restored"]:
            return ("stdout", "sys.stdout/sys.stderr are not the objects found before the failing request")
        if "c" in r["files"]:
            return ("lock-left", f"the lock file <module>.c is still present after the failure: {r['files']}")
        if "c.failed" not in r["files"]:
            return ("no-failed-marker", f"<module>.c.failed was not created: {r['files']}")
        return None

    if kind == "codegen-visualise" and HAVE_PYGRAPHVIZ:
        return Outcome("inconclusive", case_id=h, classes=classes + ["pygraphviz-present"])
    if kind in ("codegen-inject", "codegen-reject", "codegen-visualise"):
        if kind == "codegen-inject":
            reqs = [{"form": case["form"], "inject": "codegen", "inject_exc": case.get("exc", "RuntimeError"), "timeout": 3},
                    {"form": case["form"], "timeout": 3}, {"form": case["form"], "timeout": 3}]
        elif kind == "codegen-visualise":
            # a failure FFCx produces itself after the lock was taken: IR visualisation without pygraphviz
            reqs = [{"form": case["form"], "visualise": True, "timeout": 3}, {"form": case["form"], "timeout": 3}, {"form": case["form"], "timeout": 3}]
        else:
            reqs = [{"form": "bad_sumfact", "options": {"sum_factorization": True}, "timeout": 3}] * 2
        out, err = sched.run_plain({"cache": cache, "requests": reqs}, d, "seq")
        if out is None:
            return Outcome("harness-error", case_id=h, classes=classes, what=err)
        bad = common_failure_checks(out[0], None if kind == "codegen-visualise" else (case.get("exc", "RuntimeError"),))
        if bad:
            return viol(*bad)
        r2 = out[1]
        if kind in ("codegen-inject", "codegen-visualise"):
            if r2["status"] != "ok" or not r2["compiled"] or not r2["correct"]:
                return viol("next-request", f"after a failed code generation the same request should build afresh; got {r2}")
            r3 = out[2]
            if r3["status"] != "ok" or not r3["correct"]:
                return viol("request-after-rebuild", f"the failure keeps poisoning the cache entry: the request after the successful rebuild got {r3}")
        else:
            if r2["status"] != "exc" or r2["exc"] != "RuntimeError":
                return viol("next-request", f"the repeated (deterministically rejected) request should raise the same error at once; got {r2}")
        return Outcome("ok", case_id=h, nontrivial=True, classes=classes, sample={"case": case, "results": out})

    if kind in ("cc-fail", "ld-fail"):
        env = wrappers(d)
        flag = d / ("FAIL_CC" if kind == "cc-fail" else "FAIL_LD")
        flag.write_text("x")
        req = {"form": case["form"], "timeout": 3}
        out, err = sched.run_plain({"cache": cache, "requests": [req]}, d, "first", extra_env=env)
        if out is None:
            return Outcome("harness-error", case_id=h, classes=classes, what=err)
        bad = common_failure_checks(out[0])
        if bad:
            return viol(*bad)
        flag.unlink()
        out2, err = sched.run_plain({"cache": cache, "requests": [req]}, d, "second", extra_env=env)
        if out2 is None:
            return Outcome("harness-error", case_id=h, classes=classes, what=err)
        r2 = out2[0]
        if r2["status"] != "ok" or not r2["compiled"] or not r2["correct"]:
            return viol("next-request", f"after a transient {'compiler' if kind == 'cc-fail' else 'linker'} failure the next request should build afresh; got {r2}")
        # ... and the rebuilt module must then be served like any cached module (same process again, and a fresh process)
        out3, err = sched.run_plain({"cache": cache, "requests": [req, req]}, d, "third", extra_env=env)
        if out3 is None:
            return Outcome("harness-error", case_id=h, classes=classes, what=err)
        for r3 in out3:
            if r3["status"] != "ok" or not r3["correct"] or r3["compiled"]:
                return viol("request-after-rebuild", f"the failure keeps poisoning the cache entry: a request after the successful rebuild got {r3} "
                            f"(expected the cached module, no compilation)")
        return Outcome("ok", case_id=h, nontrivial=True, classes=classes, sample={"case": case, "first": out[0], "second": r2})

    # kill scenarios
    job = {"cache": cache, "requests": [{"form": case["form"], "timeout": 400}]}
    if kind == "kill-builder":
        hist, kids = sched.run_schedule([job], [0], d, kill_at=(0, case["point"]))
        killed_tag = next((t for i, t in hist if "<KILL>" in t), None)
        classes.append(f"crash-point:{case['point']}:{(killed_tag or 'none').replace(' <KILL>', '')}")
    else:
        # builder runs to completion of the lock, waiter is killed while polling
        hist, kids = sched.run_schedule([job, job], [0, 0, 1, 1, 1, 0], d, kill_at=(1, case["point"]))
        killed_tag = next((t for i, t in hist if "<KILL>" in t), None)
        classes.append(f"waiter-killed-at:{(killed_tag or 'none').replace(' <KILL>', '')}")
    lock_taken = any(t.startswith("open:c:x") for i, t in hist)
    # follow-up requests with a short, poll-counted timeout
    fjob = {"cache": cache, "requests": [{"form": case["form"], "timeout": 3}]}
    results = []
    if case["concurrent"] and case["followups"] >= 2:
        hist2, kids2 = sched.run_schedule([fjob] * case["followups"], list(range(case["followups"])), d)
        for k in kids2:
            results.append(k.results[0] if k.results else {"status": "no-result", "exit": k.p.returncode})
        replay["followup_history"] = [f"{i}:{t}" for i, t in hist2]
    else:
        for k in range(case["followups"]):
            out, err = sched.run_plain(fjob, d, f"f{k}")
            results.append(out[0] if out else {"status": "no-result", "err": err[-300:]})
    replay["history"] = [f"{i}:{t}" for i, t in hist]
    for k, r in enumerate(results):
        if r["status"] == "ok":
            if not r["correct"]:
                return viol("wrong-kernel", f"follow-up request {k} after {kind} at {killed_tag} returned a kernel computing {r['total']}")
        elif r["status"] == "exc":
            if r["exc"] != "TimeoutError":
                return viol("bad-exception", f"follow-up request {k} after {kind} at {killed_tag} raised {r['exc']}: {r['msg']} (only TimeoutError is documented)")
        else:
            return viol("crash", f"follow-up request {k} after {kind} at {killed_tag} ended without a result: {r}")
    return Outcome("ok", case_id=h, nontrivial=lock_taken, classes=classes + [f"followups:{case['followups']}", "concurrent" if case["concurrent"] else "sequential"],
                   sample={"case": case, "killed_at": killed_tag, "followups": [r.get("status") + ":" + str(r.get("exc", r.get("compiled"))) for r in results]})


INJECT_EXC = ["RuntimeError", "ValueError", "KeyError", "AssertionError", "RecursionError", "MemoryError", "TypeError"]
try:
    import pygraphviz  # noqa: F401

    HAVE_PYGRAPHVIZ = True
except Exception:  # noqa: BLE001
    HAVE_PYGRAPHVIZ = False


def shard(shard, nshards, n, tier, seed):
    res = ShardResult()
    with scratch(f"vf-c15-{shard}-") as wd:
        # crash-point enumeration: every builder sync point exactly once across the shards, every tier
        fixed = []
        for p in range(BUILDER_POINTS):
            if p % nshards == shard:
                fixed.append({"kind": "kill-builder", "form": "mass_p1", "point": p, "followups": 2, "concurrent": False})
        kinds = ["codegen-inject", "codegen-reject", "codegen-visualise", "cc-fail", "ld-fail", "kill-waiter"]
        for j, k in enumerate(kinds):
            if (BUILDER_POINTS + j) % nshards == shard:
                c = {"kind": k, "form": "mass_p1"}
                if k == "kill-waiter":
                    c.update(point=2, followups=1, concurrent=False)
                fixed.append(c)
        from ..common import leave_crumb

        for c in fixed:
            leave_crumb(c)
            o = evaluate(c, wd)
            res.case(o.case_id, o.nontrivial and o.status == "ok", sample=o.sample, classes=o.classes + ["enumerated"])
            res.count("status:" + o.status)
            if o.status == "violation":
                res.fail(o.key, o.what, o.replay, bucket=o.bucket)
        drive(cases(), lambda c: evaluate(c, wd), n, (PROP, seed, shard), res, shrink_calls=5, shrink_seconds=60, max_buckets=2)
    return res


def run(tier: str) -> int:
    run_ = Run(PROP, tier, "fault_enumeration", RULE)
    n = 2 if tier == "quick" else thorough(8)
    for part in run_shards(shard, 16, n=n, tier=tier, seed=verif_seed()):
        run_.merge(part)
    run_.extra["crash_points_enumerated"] = BUILDER_POINTS
    run_.extra["exhaustive_over_builder_sync_points"] = True
    run_.assumptions = [
        "crash points are the harness's sync points; a kill inside the C compiler or linker is represented by the kill before/after their spawn",
        "the follow-up timeout is 3 polls of one second each; TimeoutError is the documented outcome for a stale lock",
    ]
    return run_.finish()


def replay(doc) -> int:
    with scratch("vf-replay-") as wd:
        o = evaluate(doc["replay"]["case"], wd)
    print(o.status, o.what)
    if o.status == "violation":
        print(f"VIOLATION property={PROP} replay=(replayed)")
        return 1
    return 0
