"""C11  Requested quadrature degree/scheme is honoured and exact where it should be (DESIGN.md 5, C11)."""

from __future__ import annotations

import math
from fractions import Fraction

import basix
import numpy as np
from hypothesis import strategies as st

from .. import strategies, inputs, kernels, refeval, specs
from ..common import Run, ShardResult, run_shards, scratch, spec_hash, verif_seed
from ..common import thorough  # noqa: E402
from ..hyp import Outcome, drive
from ..specs import TDIM

PROP = "C11"
RULE = (
    "Functionals M = sum_k m_k(x) dx(degree=q_k, scheme=s_k) on rational affine cells (all six cell types), m_k monomials "
    "x^a y^b z^c of degree <= q_k (exactness) or q_k+1..q_k+3 (negative controls), q in 0..30 (quick: spread values), schemes "
    "default / GLL / Gauss-Jacobi / vertex, several differing rules in one subdomain, quadrature elements with default and "
    "random custom points/weights (also next to integrals with their own metadata), repeated integrands under metadata that resolve to one rule, "
    "exterior-facet functionals m(x)*ds(degree, scheme incl. vertex) on every local facet type, and metadata-free products P_k x P_m x monomial. Oracles: (1) exact integral in rational "
    "arithmetic (reference-monomial formulas pulled through the rational affine map); (2) the harness's own quadrature sum with "
    "the rule recomputed by basix.make_quadrature for each integral separately (two-sided: a kernel using another rule for an "
    "integrand above that rule's degree is caught). Non-trivial = monomial degree >= 1 and (degree == q, or a negative control whose "
    "rule sum differs measurably from the exact value, or >= 2 distinct rules in the form); distinct by case hash."
)
OPTS = {"table_rtol": 1e-14, "table_atol": 1e-14}
REL_TOL = 2e-12


# ---------------------------------------------------------------------------------------
# exact integration in rational arithmetic
# ---------------------------------------------------------------------------------------


def poly_mul(p, q):
    out = {}
    for ea, ca in p.items():
        for eb, cb in q.items():
            e = tuple(x + y for x, y in zip(ea, eb))
            out[e] = out.get(e, 0) + ca * cb
    return out


def poly_pow_linear(lin, n):
    r = {tuple(0 for _ in next(iter(lin))): Fraction(1)}
    for _ in range(n):
        r = poly_mul(r, lin)
    return r


def ref_monomial_integral(cell, e):
    f = math.factorial
    if cell == "interval":
        return Fraction(1, e[0] + 1)
    if cell == "triangle":
        return Fraction(f(e[0]) * f(e[1]), f(e[0] + e[1] + 2))
    if cell == "tetrahedron":
        return Fraction(f(e[0]) * f(e[1]) * f(e[2]), f(e[0] + e[1] + e[2] + 3))
    if cell in ("quadrilateral", "hexahedron"):
        r = Fraction(1)
        for k in e:
            r *= Fraction(1, k + 1)
        return r
    if cell == "prism":
        return Fraction(f(e[0]) * f(e[1]), f(e[0] + e[1] + 2)) * Fraction(1, e[2] + 1)
    raise ValueError(cell)


def exact_integral(cell, Am, bv, alpha, ref_factor=None):
    """Integral over the affine image of the reference cell of prod_i x_i^alpha_i (times X^ref_factor)."""
    tdim = TDIM[cell]
    zero = tuple(0 for _ in range(tdim))
    p = {zero: Fraction(1)}
    for i in range(tdim):
        if alpha[i] == 0:
            continue
        lin = {zero: Fraction(bv[i])}
        for j in range(tdim):
            e = tuple(1 if k == j else 0 for k in range(tdim))
            if Am[i][j] != 0:
                lin[e] = lin.get(e, 0) + Fraction(Am[i][j])
        p = poly_mul(p, poly_pow_linear(lin, alpha[i]))
    if ref_factor is not None:
        p = {tuple(a + b for a, b in zip(e, ref_factor)): c for e, c in p.items()}
    det = det_frac(Am)
    tot = Fraction(0)
    for e, c in p.items():
        tot += c * ref_monomial_integral(cell, e)
    return tot * abs(det)


def det_frac(M):
    n = len(M)
    if n == 1:
        return M[0][0]
    if n == 2:
        return M[0][0] * M[1][1] - M[0][1] * M[1][0]
    return (M[0][0] * (M[1][1] * M[2][2] - M[1][2] * M[2][1]) - M[0][1] * (M[1][0] * M[2][2] - M[1][2] * M[2][0])
            + M[0][2] * (M[1][0] * M[2][1] - M[1][1] * M[2][0]))


def affine_from_ints(tdim, g):
    """Rational affine map with non-zero determinant by construction: A = Lower * Diag * Upper."""
    diag_choices = [Fraction(1), Fraction(-1), Fraction(2), Fraction(1, 2), Fraction(3, 2), Fraction(-1, 2)]
    Lm = [[Fraction(1 if i == j else (g["l"][i * 3 + j] if i > j else 0)) for j in range(tdim)] for i in range(tdim)]
    Um = [[Fraction(1 if i == j else (g["u"][i * 3 + j] if i < j else 0)) for j in range(tdim)] for i in range(tdim)]
    Dm = [[diag_choices[g["d"][i] % len(diag_choices)] if i == j else Fraction(0) for j in range(tdim)] for i in range(tdim)]

    def mm(X, Y):
        return [[sum(X[i][k] * Y[k][j] for k in range(tdim)) for j in range(tdim)] for i in range(tdim)]

    Am = mm(mm(Lm, Dm), Um)
    bv = [Fraction(g["b"][i], 2) for i in range(tdim)]
    return Am, bv


# ---------------------------------------------------------------------------------------
# the harness's own rules
# ---------------------------------------------------------------------------------------


def own_rule(cell, q, scheme):
    ct = refeval.CT[cell]
    if scheme == "vertex":
        pts = np.asarray(basix.geometry(ct))
        return pts, np.full(pts.shape[0], basix.cell.volume(ct) / pts.shape[0])
    pts, wts = basix.make_quadrature(ct, int(q), rule=basix.quadrature.string_to_type(scheme), polyset_type=basix.PolysetType.standard)
    return np.asarray(pts), np.asarray(wts)


def mono_values(Xp, Am, bv, alpha):
    A = np.array([[float(v) for v in row] for row in Am])
    b = np.array([float(v) for v in bv])
    x = Xp @ A.T + b
    v = np.ones(Xp.shape[0])
    for i, a in enumerate(alpha):
        if a:
            v = v * x[:, i] ** a
    return v


def mono_mag(Xp, Am, bv, alpha):
    """Magnitude of the monomial's evaluation: x_i replaced by sum_j |A_ij||X_j| + |b_i| (the kernel computes x from the vertex
    coordinates, so a value that cancels to zero - a point on a coordinate plane - still carries rounding at this magnitude)."""
    A = np.abs(np.array([[float(v) for v in row] for row in Am]))
    b = np.abs(np.array([float(v) for v in bv]))
    x = np.abs(Xp) @ A.T + b
    v = np.ones(Xp.shape[0])
    for i, a in enumerate(alpha):
        if a:
            v = v * x[:, i] ** a
    return v


# ---------------------------------------------------------------------------------------
# cases
# ---------------------------------------------------------------------------------------

SCHEMES = {
    "interval": ["default", "GLL", "Gauss-Jacobi", "vertex"],
    "triangle": ["default", "Gauss-Jacobi", "vertex"],
    "quadrilateral": ["default", "GLL", "Gauss-Jacobi", "vertex"],
    "tetrahedron": ["default", "Gauss-Jacobi", "vertex"],
    "hexahedron": ["default", "GLL", "Gauss-Jacobi", "vertex"],
    "prism": ["default", "Gauss-Jacobi"],
}


def mono_tree(alpha):
    t = None
    for i, a in enumerate(alpha):
        if a == 0:
            continue
        f = ["idx", ["geo", "x"], i]
        if a > 1:
            f = ["pow", f, ["lit", int(a)]]
        t = f if t is None else ["mul", t, f]
    return t if t is not None else ["lit", 1.0]


@st.composite
def exponents(draw, tdim, total):
    rem = total
    out = []
    for i in range(tdim - 1):
        a = draw(st.integers(0, rem))
        out.append(a)
        rem -= a
    out.append(rem)
    perm = draw(st.permutations(list(range(tdim))))
    return [out[p] for p in perm]


@st.composite
def cases(draw, qmax=30, qset=None):
    cell = draw(st.sampled_from(list(SCHEMES)))
    tdim = TDIM[cell]
    g = {"l": [draw(st.integers(-1, 1)) for _ in range(9)], "u": [draw(st.integers(-1, 1)) for _ in range(9)],
         "d": [draw(st.integers(0, 5)) for _ in range(3)], "b": [draw(st.integers(-3, 3)) for _ in range(3)]}
    qcap = qmax if tdim < 3 else min(qmax, 30)
    forms = []
    nforms = draw(st.integers(2, 6))
    for _ in range(nforms):
        kind = draw(st.sampled_from(["single", "single", "multi", "multi", "qelement", "cquad", "nometa", "qmix"]))
        if tdim >= 2 and strategies.prob(draw, 0.15):
            # an exterior-facet functional m(x)*ds with its own degree/scheme on one local facet
            nf = len(basix.topology(refeval.CT[cell])[tdim - 1])
            fi = draw(st.integers(0, nf - 1))
            ft = refeval.sub_entity_type(cell, tdim - 1, fi).name
            sch = draw(st.sampled_from([s_ for s_ in SCHEMES[ft] if not (s_ == "vertex" and cell == "prism")]))
            q = 1 if sch == "vertex" else draw(st.sampled_from([0, 1, 2, 3, 5, 8]))
            over = draw(st.sampled_from([0, 0, -1, 1, 2]))
            forms.append({"kind": "facet", "facet": fi, "q": q, "scheme": sch, "alpha": draw(exponents(tdim, max(0, min(q + over, 12))))})
            continue
        if kind == "qmix":
            # one subdomain holding an integral whose rule is defined by a quadrature element next to integrals with their own metadata
            terms = []
            for _k in range(draw(st.integers(1, 2))):
                scheme = draw(st.sampled_from([s_ for s_ in SCHEMES[cell] if s_ != "vertex"]))
                q = draw(st.sampled_from([1, 2, 3, 5, 8]))
                over = draw(st.sampled_from([0, 0, -1, 1, 2]))
                terms.append({"alpha": draw(exponents(tdim, max(0, q + over))), "q": q, "scheme": scheme})
            forms.append({"kind": kind, "terms": terms, "qe": draw(st.sampled_from([0, 1, 2, 4])), "custom": draw(st.booleans()), "npts": draw(st.integers(1, 3)),
                          "alpha": draw(exponents(tdim, draw(st.integers(0, 3)))), "vals_seed": draw(st.integers(0, 10**6)),
                          "q_position": draw(st.integers(0, len(terms))), "q_shape": draw(st.sampled_from(["f*m", "m*f", "f*f*m"]))})
            continue
        if kind in ("single", "multi"):
            terms = []
            for _k in range(1 if kind == "single" else draw(st.integers(2, 3))):
                scheme = draw(st.sampled_from(SCHEMES[cell]))
                q = draw(st.sampled_from(qset)) if qset else draw(st.integers(0, qcap))
                if tdim == 3 and q > 16 and draw(st.integers(0, 2)) > 0:
                    q = q % 17  # keep most 3D rules moderate in size; still reaches 30 sometimes
                if scheme == "vertex":
                    q = 1
                over = draw(st.sampled_from([0, 0, 0, -1, 1, 2, 3]))
                deg = max(0, min(q + over, 34)) if scheme != "vertex" else draw(st.integers(0, 3))
                alpha = draw(exponents(tdim, deg))
                if kind == "multi" and terms and terms[-1]["q"] is not None and draw(st.integers(0, 3)) == 0:
                    # the same integrand again under other metadata that may resolve to the very same rule (q and q+1 of a Gauss
                    # scheme, default vs Gauss-Jacobi): both integrals count
                    prev = terms[-1]
                    q2 = max(0, min(prev["q"] + draw(st.sampled_from([0, 1, -1, 1])), qcap)) if prev["scheme"] != "vertex" else 1
                    sch2 = draw(st.sampled_from([prev["scheme"], prev["scheme"], "default", "Gauss-Jacobi"])) if prev["scheme"] != "vertex" else "vertex"
                    if sch2 not in SCHEMES[cell]:
                        sch2 = prev["scheme"]
                    terms.append({"alpha": prev["alpha"], "q": q2, "scheme": sch2})
                    continue
                if kind == "multi" and draw(st.integers(0, 3)) == 0:
                    # no metadata at all: the rule comes from the estimated degree and must integrate the monomial exactly
                    terms.append({"alpha": draw(exponents(tdim, draw(st.integers(1, 8)))), "q": None, "scheme": "default"})
                else:
                    terms.append({"alpha": alpha, "q": q, "scheme": scheme})
            forms.append({"kind": kind, "terms": terms})
        elif kind == "qelement":
            forms.append({"kind": kind, "qe": draw(st.integers(0, 6)), "alpha": draw(exponents(tdim, draw(st.integers(0, 4)))),
                          "vals_seed": draw(st.integers(0, 10**6))})
        elif kind == "cquad":
            npts = draw(st.integers(1, 4))
            seed = draw(st.integers(0, 10**6))
            forms.append({"kind": kind, "npts": npts, "alpha": draw(exponents(tdim, draw(st.integers(0, 3)))), "vals_seed": seed})
        else:
            k = draw(st.integers(1, 3 if tdim < 3 else 2))
            m = draw(st.integers(1, 3 if tdim < 3 else 2))
            forms.append({"kind": kind, "k": k, "m": m, "beta": draw(exponents(tdim, draw(st.integers(0, k)))),
                          "gamma": draw(exponents(tdim, draw(st.integers(0, m)))), "alpha": draw(exponents(tdim, draw(st.integers(0, 3))))})
    return {"cell": cell, "geom": g, "forms": forms}


def interior_points(cell, n, seed):
    rng = np.random.default_rng([seed, 5])
    tdim = TDIM[cell]
    V = np.asarray(basix.geometry(refeval.CT[cell]))
    pts = []
    for _ in range(n):
        lam = rng.dirichlet(np.ones(V.shape[0]) * 2.0)
        pts.append(lam @ V)
    pts = np.round(np.array(pts), 4)
    w = np.round(rng.uniform(0.1, 1.0, size=n), 4)
    return pts.reshape(n, tdim), w


def form_spec(cell, f):
    base = {"kind": "form", "cell": cell, "gdim": TDIM[cell], "cdeg": 1, "elements": [], "args": [], "coefs": [], "consts": [], "integrals": []}
    if f["kind"] in ("single", "multi"):
        for t in f["terms"]:
            md = {} if t["q"] is None else {"quadrature_degree": int(t["q"])}
            if t["scheme"] != "default":
                md["quadrature_rule"] = t["scheme"]
            base["integrals"].append({"m": "dx", "id": None, "md": md, "e": mono_tree(t["alpha"])})
    elif f["kind"] == "facet":
        md = {"quadrature_degree": int(f["q"])}
        if f["scheme"] != "default":
            md["quadrature_rule"] = f["scheme"]
        base["integrals"].append({"m": "ds", "id": None, "md": md, "e": mono_tree(f["alpha"])})
    elif f["kind"] == "qmix":
        if f["custom"]:
            pts, w = interior_points(cell, f["npts"], f["vals_seed"])
            base["elements"] = [["cquad", pts.tolist(), w.tolist(), []]]
        else:
            base["elements"] = [["quad", f["qe"], "default", []]]
        base["coefs"] = [0]
        m = mono_tree(f["alpha"])
        qe = {"f*m": ["mul", ["f", 0], m], "m*f": ["mul", m, ["f", 0]], "f*f*m": ["mul", ["mul", ["f", 0], ["f", 0]], m]}[f["q_shape"]]
        ints = []
        for t in f["terms"]:
            md = {"quadrature_degree": int(t["q"])}
            if t["scheme"] != "default":
                md["quadrature_rule"] = t["scheme"]
            ints.append({"m": "dx", "id": None, "md": md, "e": mono_tree(t["alpha"])})
        ints.insert(f["q_position"], {"m": "dx", "id": None, "md": {}, "e": qe})
        base["integrals"] = ints
    elif f["kind"] == "qelement":
        base["elements"] = [["quad", f["qe"], "default", []]]
        base["coefs"] = [0]
        base["integrals"].append({"m": "dx", "id": None, "md": {}, "e": ["mul", ["f", 0], mono_tree(f["alpha"])]})
    elif f["kind"] == "cquad":
        pts, w = interior_points(cell, f["npts"], f["vals_seed"])
        base["elements"] = [["cquad", pts.tolist(), w.tolist(), []]]
        base["coefs"] = [0]
        base["integrals"].append({"m": "dx", "id": None, "md": {}, "e": ["mul", ["f", 0], mono_tree(f["alpha"])]})
    else:
        base["elements"] = [["el", "P", f["k"], {}], ["el", "P", f["m"], {}]]
        base["coefs"] = [0, 1]
        base["integrals"].append({"m": "dx", "id": None, "md": {}, "e": ["mul", ["mul", ["f", 0], ["f", 1]], mono_tree(f["alpha"])]})
    return base


def evaluate_case(case, wd):
    cell = case["cell"]
    tdim = TDIM[cell]
    h = spec_hash(case)
    Am, bv = affine_from_ints(tdim, case["geom"])
    Af = np.array([[float(v) for v in row] for row in Am])
    bf = np.array([float(v) for v in bv])
    detA = abs(float(det_frac(Am)))
    classes = [f"cell:{cell}"]
    builts = []
    for f in case["forms"]:
        b = specs.build(form_spec(cell, f))
        builts.append(b)
        classes.append("kind:" + f["kind"])
    try:
        mod = kernels.compile_module([b.form for b in builts], dict(OPTS, scalar_type="float64"), workdir=wd, name="q" + h)
    except kernels.Rejected as e:
        return Outcome("rejected", case_id=h, classes=classes + ["rejected:" + type(e.exc).__name__], what=str(e)[:300])
    except kernels.CompileError as e:
        return Outcome("cc-error", case_id=h, classes=classes, what=e.stderr[-300:])
    Vref = np.asarray(basix.geometry(refeval.CT[cell]))
    xnodes = Vref @ Af.T + bf
    coords = np.zeros((xnodes.shape[0], 3))
    coords[:, :tdim] = xnodes
    nontrivial = False
    for k, (f, b) in enumerate(zip(case["forms"], builts)):
        cform = mod.objects[k]
        desc = kernels.read_form_descriptor(mod.ffi, cform)
        if f["kind"] == "facet":
            bad = _check_facet_form(cell, f, Af, bf, Am, bv, mod, cform, desc, coords)
            classes.append("exterior-facet-rule")
            nontrivial = True
            if bad:
                return _viol(h, classes, cell, "facet-rule", f"form {k} ({f}): " + bad, case, k)
            continue
        idxs = kernels.integrals_of(desc, "cell", -1)
        if len(idxs) != 1:
            return _viol(h, classes, cell, "dispatch", f"form {k}: expected one cell kernel under id -1, found {len(idxs)}", case, k)
        expected = 0.0
        scale = 0.0
        exact = None
        w = np.zeros(0)
        notes = []
        if f["kind"] in ("single", "multi"):
            exact_tot = Fraction(0)
            all_exact = True
            rules = set()
            for t in f["terms"]:
                deg = sum(t["alpha"])
                ex = exact_integral(cell, Am, bv, t["alpha"])
                if t["q"] is None:
                    # estimated degree: any rule that is exact for the monomial gives the exact value
                    Xq, wq = own_rule(cell, min(2 * deg + 2, 30), "default")
                    vals = mono_values(Xq, Am, bv, t["alpha"])
                    expected += float(ex)
                    scale += float(np.sum(np.abs(wq) * mono_mag(Xq, Am, bv, t["alpha"])) * detA)
                    exact_tot += ex
                    rules.add(("estimated", deg))
                    nontrivial = True
                    continue
                Xq, wq = own_rule(cell, t["q"], t["scheme"])
                rules.add((len(wq), round(float(Xq.sum()), 9)))
                vals = mono_values(Xq, Am, bv, t["alpha"])
                s = float(np.sum(wq * vals) * detA)
                expected += s
                scale += float(np.sum(np.abs(wq) * mono_mag(Xq, Am, bv, t["alpha"])) * detA)
                exact_tot += ex
                if t["scheme"] == "vertex":
                    all_exact = all_exact and deg <= 1
                else:
                    all_exact = all_exact and deg <= t["q"]
                if deg >= 1 and (deg == t["q"] or abs(float(ex) - s) > 1e3 * REL_TOL * max(scale, 1e-300)):
                    nontrivial = True
            if len(rules) >= 2:
                nontrivial = True
                classes.append("multi-rule")
            if all_exact:
                exact = float(exact_tot)
        elif f["kind"] == "qmix":
            el = b.elements[0]
            Xq, wq = (np.asarray(a) for a in el.custom_quadrature())
            rng = np.random.default_rng([f["vals_seed"], 3])
            w = inputs.f32(rng.uniform(-2, 2, size=len(wq)))
            fv = w * w if f["q_shape"] == "f*f*m" else w
            vals = mono_values(Xq, Am, bv, f["alpha"]) * fv
            expected = float(np.sum(wq * vals) * detA)
            scale = float(np.sum(np.abs(wq) * mono_mag(Xq, Am, bv, f["alpha"]) * np.abs(fv)) * detA)
            for t in f["terms"]:  # each further integral with its own rule
                Xt, wt = own_rule(cell, t["q"], t["scheme"])
                vt = mono_values(Xt, Am, bv, t["alpha"])
                expected += float(np.sum(wt * vt) * detA)
                scale += float(np.sum(np.abs(wt) * mono_mag(Xt, Am, bv, t["alpha"])) * detA)
            nontrivial = True
            classes.append("quadrature-element-next-to-own-rules")
        elif f["kind"] in ("qelement", "cquad"):
            el = b.elements[0]
            Xq, wq = el.custom_quadrature()
            Xq, wq = np.asarray(Xq), np.asarray(wq)
            rng = np.random.default_rng([f["vals_seed"], 3])
            w = inputs.f32(rng.uniform(-2, 2, size=len(wq)))
            vals = mono_values(Xq, Am, bv, f["alpha"]) * w
            expected = float(np.sum(wq * vals) * detA)
            scale = float(np.sum(np.abs(wq) * mono_mag(Xq, Am, bv, f["alpha"]) * np.abs(w)) * detA)
            nontrivial = nontrivial or sum(f["alpha"]) >= 1
        else:
            # f0 = X^beta, f1 = X^gamma interpolated exactly (nodal elements); integrand polynomial -> exact
            w_parts = []
            for el, ex_ in zip(b.elements, (f["beta"], f["gamma"])):
                nodes = np.asarray(el._element.points)
                v = np.ones(nodes.shape[0])
                for i, a in enumerate(ex_):
                    if a:
                        v = v * nodes[:, i] ** a
                w_parts.append(v)
            w = np.concatenate(w_parts)
            rf = tuple(x + y for x, y in zip(f["beta"], f["gamma"]))
            exact = float(exact_integral(cell, Am, bv, f["alpha"], ref_factor=rf))
            expected = exact
            Xq, wq = own_rule(cell, min(sum(f["alpha"]) + sum(rf) + 2, 30), "default")
            vals = mono_mag(Xq, Am, bv, f["alpha"])
            for i, a in enumerate(rf):
                if a:
                    vals = vals * np.abs(Xq[:, i]) ** a
            scale = float(np.sum(np.abs(wq) * vals) * detA)
            nontrivial = True
            classes.append("no-metadata")
        # pack by descriptor
        pos = desc["original_coefficient_positions"]
        if f["kind"] == "nometa":
            parts = [w_parts[p] for p in pos]
            wk = np.concatenate(parts) if parts else np.zeros(0)
        else:
            wk = w if pos else np.zeros(0)
        res = kernels.call_kernel(mod.ffi, cform.form_integrals[idxs[0]], "float64", (), wk, np.zeros(0), coords)
        val = float(np.asarray(res.A).ravel()[0])
        tol = REL_TOL * max(scale, 1e-300) + 1e-300
        if res.problems:
            return _viol(h, classes, cell, "guard", f"form {k}: " + "; ".join(res.problems), case, k)
        if not abs(val - expected) <= tol:
            return _viol(h, classes, cell, "rule", f"form {k} ({f}): kernel {val!r} but the requested rule(s) give {expected!r} "
                         f"(|diff| {abs(val - expected):.3e} > tol {tol:.3e})" + (f"; exact integral {exact!r}" if exact is not None else ""), case, k)
        if exact is not None and not abs(val - exact) <= 50 * tol:
            return _viol(h, classes, cell, "exactness", f"form {k} ({f}): kernel {val!r} but the integrand is a polynomial of degree <= q with exact "
                         f"integral {exact!r} (|diff| {abs(val - exact):.3e})", case, k)
    return Outcome("ok", case_id=h, nontrivial=nontrivial, classes=classes, sample={"case": case})


def _check_facet_form(cell, f, Af, bf, Am, bv, mod, cform, desc, coords):
    """m(x)*ds on local facet f["facet"]: the kernel must equal the facet rule's own sum  sum_q w_q m(x(X_q)) |facet| / |reference facet|."""
    tdim = TDIM[cell]
    fi = f["facet"]
    ft = refeval.sub_entity_type(cell, tdim - 1, fi)
    Xf, wf = own_rule(ft.name, f["q"], f["scheme"])
    X = refeval.map_to_sub_entity(cell, tdim - 1, fi, Xf)
    Jf = Af @ refeval.reference_facet_jacobian(cell, fi)
    fscale = float(np.sqrt(abs(np.linalg.det(Jf.T @ Jf))))
    vals = mono_values(X, Am, bv, f["alpha"])
    expected = float(np.sum(wf * vals) * fscale)
    scale = float(np.sum(np.abs(wf) * mono_mag(X, Am, bv, f["alpha"])) * fscale)
    tag = int(ft.value)
    idxs = [i for i in kernels.integrals_of(desc, "exterior_facet", -1) if desc["integrals"][i]["domain"] == tag]
    if len(idxs) != 1:
        return f"expected one exterior-facet kernel for facet type {ft.name} under id -1, found {len(idxs)}"
    res = kernels.call_kernel(mod.ffi, cform.form_integrals[idxs[0]], "float64", (), np.zeros(0), np.zeros(0), coords, entity=[fi])
    if res.problems:
        return "; ".join(res.problems)
    val = float(np.asarray(res.A).ravel()[0])
    tol = REL_TOL * max(scale, 1e-300) + 1e-300
    if not abs(val - expected) <= tol:
        return (f"kernel {val!r} on local facet {fi} but the facet's own {f['scheme']} rule of degree {f['q']} gives {expected!r} "
                f"(|diff| {abs(val - expected):.3e} > tol {tol:.3e})")
    return None


def _viol(h, classes, cell, kind, what, case, k):
    small = dict(case, forms=[case["forms"][k]])
    return Outcome("violation", case_id=h, classes=classes, key=f"{PROP}:{spec_hash(small)}", bucket=f"{PROP}:{kind}:{cell}:{case['forms'][k]['kind']}",
                   what=what, replay={"case": case, "form_index": k, "ufl_source": specs.to_source(form_spec(cell, case["forms"][k]))})


def shard(shard, nshards, n, tier, seed):
    res = ShardResult()
    qset = [0, 1, 2, 3, 5, 8, 13, 21, 30] if tier == "quick" else None
    with scratch(f"vf-c11-{shard}-") as wd:
        drive(cases(qset=qset), lambda c: evaluate_case(c, wd), n, (PROP, seed, shard), res, shrink_calls=40)
    return res


def run(tier: str) -> int:
    run_ = Run(PROP, tier, "exploration", RULE)
    n = 6 if tier == "quick" else thorough(60)
    for part in run_shards(shard, 16, n=n, tier=tier, seed=verif_seed()):
        run_.merge(part)
    run_.assumptions = [
        "basix.make_quadrature is the definition of a (degree, scheme) rule; reference-monomial formulas are exact",
        "compiled with table_rtol=table_atol=1e-14 so that clamping cannot hide rule differences; tolerance 2e-12 x sum|w f|",
        "modules whose rules collide in FFCx's short rule id fail in the C compiler and are judged by C19 (counted here)",
    ]
    return run_.finish()


def replay(doc) -> int:
    rp = doc["replay"]
    with scratch("vf-replay-") as wd:
        o = evaluate_case(rp["case"], wd)
    print(o.status, o.what)
    if o.status == "violation":
        print(f"VIOLATION property={PROP} replay=(replayed)")
        return 1
    return 0
