"""C16  Formatted source means exactly what the code-generation AST says (DESIGN.md section 5, C16)."""

from __future__ import annotations

import math
import traceback

import numpy as np
from hypothesis import strategies as st

from .. import cparse, lnstrategies, lntree
from ..common import Run, ShardResult, canon, run_shards, spec_hash, verif_seed
from ..common import thorough  # noqa: E402
from ..hyp import Outcome, drive

PROP = "C16"
RULE = (
    "LNodes trees built with the raw constructors: (1) exhaustive enumeration of every well-typed (parent, child, "
    "operand position) triple at depth 2; (2) Hypothesis random expression trees (depth <= 4: literals incl. negative/"
    "complex/near-1/subnormal, symbols, 1-4-index array accesses, MultiIndex operands, Neg, + - * /, n-ary Sum/Product, "
    "math functions, conditionals, comparisons, And/Or/Not) and statement lists (Assign, AssignAdd, VariableDecl, ArrayDecl, "
    "nested ForRange, Section, StatementList, Comment); each formatted by the C formatter (float64, complex64, ...) and the "
    "numba formatter and re-parsed with pycparser / Python ast; oracle: normal(parse(format(t))) == normal(t) with float "
    "literals within 1 ulp, plus value equality on a random environment. Non-trivial = tree has at least one "
    "operator-under-operator edge; distinct by tree hash."
)
SCALAR_TYPES = ["float64", "complex128", "float32", "complex64"]


def c_formatter(st_):
    from ffcx.codegeneration.C.formatter import Formatter

    return Formatter(st_)


def numba_formatter(st_):
    from ffcx.codegeneration.numba.formatter import Formatter

    return Formatter(st_)


# Names of the C99 <math.h>/<complex.h> and numpy functions that compute each LNodes math function - written down here from
# the C standard / numpy documentation, NOT read from FFCx's tables, so that a wrong table entry in a formatter is a round-trip
# failure (the text would call another function than the tree says).
_C_REAL = {"abs": "fabs", "power": "pow", "ln": "log", "atan_2": "atan2", "atan2": "atan2", "min_value": "fmin", "max_value": "fmax",
           "bessel_j": "jn", "bessel_y": "yn"}
_C_CPLX = {"abs": "cabs", "power": "cpow", "ln": "clog", "real": "creal", "imag": "cimag", "conj": "conj"}
_C_CPLX_PREFIXED = {"sqrt", "cos", "sin", "tan", "acos", "asin", "atan", "cosh", "sinh", "tanh", "acosh", "asinh", "atanh", "exp"}
_C_NO_SUFFIX = {"bessel_j", "bessel_y"}  # jn/yn take a double; there is no ISO/POSIX float variant the formatter could rely on
COMPLEX_ONLY = {"real", "imag", "conj"}  # ufl_to_lnodes drops these for real operands; UFL removes them in real mode
NO_COMPLEX_VERSION = {"erf", "atan_2", "atan2", "min_value", "max_value", "bessel_j", "bessel_y"}
ALL_MATH = sorted(set(lnstrategies.MATH1) | set(lnstrategies.MATH2) | set(lnstrategies.MATH_COMPLEX) | set(lnstrategies.MATH_BESSEL))


def c_std_name(name, typ):
    cplx = typ.startswith("complex")
    if cplx and name in _C_CPLX:
        base = _C_CPLX[name]
    elif cplx and name in _C_CPLX_PREFIXED:
        base = "c" + name
    else:
        base = _C_REAL.get(name, name)
    if typ in ("float32", "complex64") and name not in _C_NO_SUFFIX:
        base += "f"
    return base


def _operand_type(args, scalar_type):
    """C type class the function is applied to: the real type for REAL operands, else the scalar type (as the formatter documents)."""
    from ffcx.codegeneration.utils import dtype_to_scalar_dtype

    dt = lntree.build(args[0]).dtype.name
    return np.dtype(dtype_to_scalar_dtype(scalar_type)).name if dt == "REAL" else np.dtype(scalar_type).name


def c_math_name(scalar_type):
    def f(name, args):
        return c_std_name(name, _operand_type(args, scalar_type))

    return f


def widen_ok(parsed, scalar_type):
    """In a 32-bit kernel, calling the double-precision variant (no 'f' suffix) means the same function at higher precision:
    rename it to the expected 32-bit name before comparing.  The opposite (an 'f' function in a 64-bit kernel) is not accepted."""
    if np.dtype(scalar_type).name not in ("float32", "complex64"):
        return parsed
    ren = {}
    for k in ALL_MATH:
        for t in ("float32", "complex64"):
            n = c_std_name(k, t)
            if n.endswith("f") and k not in _C_NO_SUFFIX:
                ren[n[:-1]] = n
    # names that are their own 32-bit form must not be renamed (jn, yn, conj -> conjf is fine)
    return _rename_math_deep(parsed, ren)


def c_math_inverse(scalar_type):
    inv = {}
    for tname in ("float64", "float32", "complex128", "complex64"):
        for k in ALL_MATH:
            inv.setdefault(c_std_name(k, tname), k)
    return inv


_NP_MAP = {"ln": "np.log", "acos": "np.arccos", "asin": "np.arcsin", "atan": "np.arctan", "atan2": "np.arctan2", "atan_2": "np.arctan2",
           "acosh": "np.arccosh", "asinh": "np.arcsinh", "atanh": "np.arctanh", "min_value": "np.minimum", "max_value": "np.maximum",
           "erf": "math.erf", "bessel_j": "scipy.special.jn", "bessel_y": "scipy.special.yn"}


def py_math_name(name, args):
    return _NP_MAP.get(name, "np." + name)


def math_domain_skip(tree, lang):
    """Reason why `tree` is outside the well-typed domain for `lang` (or None).

    real/imag/conj only exist for complex scalar types (UFL removes them in real mode and ufl_to_lnodes drops them for real
    operands); erf, atan2, min/max and Bessel functions have no complex version in C, so applying them to a complex-typed
    operand is not something a well-typed kernel body contains.
    """
    which, stype = lang.split(":")
    cplx = "complex" in stype
    for node in lntree.walk(tree):
        if isinstance(node, list) and node and node[0] == "Math":
            name, args = node[1], node[2]
            if name in COMPLEX_ONLY:
                if not (cplx and which == "c"):
                    return "complex-only function in a real-typed kernel"
                try:
                    if lntree.build(args[0]).dtype.name != "SCALAR":
                        return "real/imag/conj of a non-SCALAR operand (ufl_to_lnodes never builds it)"
                except Exception:
                    return "unbuildable operand"
            if name in NO_COMPLEX_VERSION and cplx and args:
                try:
                    if any(lntree.build(a).dtype.name == "SCALAR" for a in args):
                        return "function without complex version applied to a SCALAR operand"
                except Exception:
                    return "unbuildable operand"
    return None


def has_nontrivial_edge(t):
    ops = {"Neg", "Not", "Sum", "Product", "Math", "Cond", "MI"} | set(lntree.BINOPS)
    for p, c, _ in lntree.tree_edges(t):
        if p in ops and c in ops:
            return True
    return False


def has_int_division(t):
    """INT / INT has no defined meaning in LNodes (C truncates, Python does not): outside the value domain."""
    if not isinstance(t, list) or not t:
        return False
    if t[0] == "Div":
        try:
            if lntree.build(t[1]).dtype.name == "INT" and lntree.build(t[2]).dtype.name == "INT":
                return True
        except Exception:
            return False
    return any(has_int_division(a) for a in t[1:] if isinstance(a, list)) or (
        t[0] in ("Sum", "Product", "Math", "Acc", "MI") and any(has_int_division(a) for sub in t[1:] if isinstance(sub, list) for a in sub if isinstance(a, list)))


def make_env(tree, seed, complex_):
    rng = np.random.default_rng([seed & 0xFFFFFFFF, 17])
    env = {}
    for n in lnstrategies.REAL_SYMS:
        env[n] = float(np.round(rng.uniform(0.2, 1.8), 3))
    for n in lnstrategies.SCALAR_SYMS:
        re_ = float(np.round(rng.uniform(0.2, 1.8), 3))
        env[n] = complex(re_, float(np.round(rng.uniform(-1, 1), 3))) if complex_ else re_
    for n in lnstrategies.INT_SYMS:
        env[n] = int(rng.integers(0, 4))

    def mk(name, dt):
        salt = sum(ord(ch) for ch in name)

        def f(*idx):
            v = math.sin(salt + sum((k + 1) * 1.37 * int(i) for k, i in enumerate(idx))) + 1.5
            if complex_ and dt == "SCALAR":
                return complex(v, math.cos(v))
            return v

        return f

    for name, dt in lnstrategies.ARRAYS:
        env[name] = mk(name, dt)
    return env


class _HArr:
    def __init__(self, f):
        self.f = f

    def __getitem__(self, idx):
        if not isinstance(idx, tuple):
            idx = (idx,)
        return self.f(*idx)


def close(a, b):
    if isinstance(a, (bool, np.bool_)) or isinstance(b, (bool, np.bool_)):
        return bool(a) == bool(b)
    a, b = complex(a), complex(b)
    if not (math.isfinite(a.real) and math.isfinite(a.imag)) or max(abs(a.real), abs(a.imag)) > 1e150:
        return True  # overflow in the reference evaluation: inconclusive
    if not (math.isfinite(b.real) and math.isfinite(b.imag)):
        return False
    return abs(a - b) <= 1e-9 * (1.0 + abs(a))


def _rename_math(t, inv):
    if not isinstance(t, list) or not t:
        return t
    if t[0] == "Math":
        return ["Math", inv.get(t[1], t[1]), [_rename_math(a, inv) for a in t[2]]]
    return [t[0]] + [_rename_math(a, inv) if isinstance(a, list) else a for a in t[1:]] if t[0] not in ("LitF", "LitI", "Sym", "Cplx") else t


def _rename_math_deep(t, inv):
    """Rename math function names in a normal-form tree (lists of lists)."""
    if isinstance(t, list):
        if t and t[0] == "Math" and len(t) == 3 and isinstance(t[1], str):
            return ["Math", inv.get(t[1], t[1]), [_rename_math_deep(a, inv) for a in t[2]]]
        return [_rename_math_deep(a, inv) for a in t]
    return t


def check_expression(tree, seed=0, langs=("c:float64", "c:float32", "c:complex64", "c:complex128", "numba:float64")):
    """Round-trip one expression tree through the formatters.  Returns list of problem dicts."""
    problems = []
    try:
        node = lntree.build(tree)
    except Exception as e:  # the raw constructors rejected the tree: outside the AST's domain
        return [{"kind": "not-constructible", "lang": "-", "detail": f"{type(e).__name__}: {e}"}]
    for lang in langs:
        which, stype = lang.split(":")
        complex_ = "complex" in stype
        skip = math_domain_skip(tree, lang)
        if skip:
            problems.append({"kind": "outside-domain", "lang": lang, "detail": skip, "soft": True})
            continue
        # complex literals / SCALAR symbols only make sense for complex scalar types in value terms, but the
        # formatter must print them regardless; the structural check is always applied.
        try:
            text = (c_formatter(stype) if which == "c" else numba_formatter(stype))(node)
        except Exception as e:
            problems.append({"kind": "formatter-exception", "lang": lang, "detail": f"{type(e).__name__}: {e}\n{traceback.format_exc()[-600:]}"})
            continue
        try:
            parsed = cparse.parse_c_expression(text) if which == "c" else cparse.parse_py_expression(text)
            if which == "c":
                parsed = widen_ok(parsed, stype)
        except cparse.ParseFailure as e:
            problems.append({"kind": "syntax", "lang": lang, "detail": f"{e}", "text": text})
            continue
        expected = cparse.nf_expr(tree, c_math_name(stype) if which == "c" else py_math_name)
        expected, parsed = cparse.canon_complex(expected), cparse.canon_complex(parsed)
        if not cparse.same(expected, parsed):
            kind = "literal" if cparse.same(expected, parsed, ulps=1e6) else "structure"
            problems.append({"kind": kind, "lang": lang, "detail": f"expected {canon(expected)[:600]} parsed {canon(parsed)[:600]}", "text": text})
            continue
        # value check (guards the normal form): evaluate the original tree and the re-parsed text
        if has_int_division(tree):
            continue
        env = make_env(tree, seed, complex_)
        try:
            v0 = lntree.eval_expr(tree, env)
        except (ZeroDivisionError, ValueError, OverflowError, TypeError):
            continue
        try:
            if which == "c":
                v1 = lntree.eval_expr(_rename_math_deep(parsed, c_math_inverse(stype)), env)
            else:
                pyenv = {"np": np, "math": math}
                if "scipy" in text:
                    from .c18 import scipy_available

                    if not scipy_available():
                        continue
                    import scipy.special

                    pyenv["scipy"] = scipy
                for k, v in env.items():
                    pyenv[k] = _HArr(v) if callable(v) else v
                with np.errstate(all="ignore"):
                    v1 = eval(compile(text.strip(), "<formatted>", "eval"), pyenv)
        except AttributeError as e:
            problems.append({"kind": "py-unknown-function", "lang": lang, "detail": str(e), "text": text, "soft": True})
            continue
        except (ZeroDivisionError, ValueError, OverflowError, TypeError, FloatingPointError):
            continue
        if not close(v0, v1):
            problems.append({"kind": "value", "lang": lang, "detail": f"tree value {v0!r} but formatted text evaluates to {v1!r}", "text": text})
    return problems


def check_statements(stmts, langs=("c:float64", "c:complex128", "numba:float64")):
    problems = []
    try:
        node = lntree.build(["List", stmts])
    except Exception as e:
        return [{"kind": "not-constructible", "lang": "-", "detail": f"{type(e).__name__}: {e}"}]
    for lang in langs:
        which, stype = lang.split(":")
        skip = math_domain_skip(["List", stmts], lang)
        if skip:
            problems.append({"kind": "outside-domain", "lang": lang, "detail": skip, "soft": True})
            continue
        try:
            text = (c_formatter(stype) if which == "c" else numba_formatter(stype))(node)
        except Exception as e:
            problems.append({"kind": "formatter-exception", "lang": lang, "detail": f"{type(e).__name__}: {e}\n{traceback.format_exc()[-600:]}"})
            continue
        try:
            parsed = cparse.parse_c_statements(text) if which == "c" else cparse.parse_py_statements(text)
            if which == "c":
                parsed = widen_ok(parsed, stype)
        except cparse.ParseFailure as e:
            problems.append({"kind": "syntax", "lang": lang, "detail": f"{e}", "text": text})
            continue
        types = cparse.C_TYPES if which == "c" else cparse.NP_TYPES
        expected = cparse.nf_stmts(stmts, stype, types, c_math_name(stype) if which == "c" else py_math_name)
        expected, parsed = cparse.canon_complex(expected), cparse.canon_complex(parsed)
        if not cparse.same(expected, parsed):
            kind = "literal" if cparse.same(expected, parsed, ulps=1e6) else "structure"
            problems.append({"kind": kind, "lang": lang, "detail": f"expected {canon(expected)[:800]} parsed {canon(parsed)[:800]}", "text": text})
    return problems


def _first_hard(problems):
    for p in problems:
        if not p.get("soft") and p["kind"] != "not-constructible":
            return p
    return None


def _edge_signature(tree):
    e = sorted(lntree.tree_edges(tree))
    return ",".join(f"{p}>{c}@{i}" for p, c, i in e[:3])


def outcome_for_expr(tree, seed):
    problems = check_expression(tree, seed)
    h = spec_hash(tree)
    classes = ["expr"] + [f"soft:{p['kind']}" for p in problems if p.get("soft")]
    if any(p["kind"] == "not-constructible" for p in problems):
        return Outcome("not-constructible", case_id=h, classes=classes)
    p = _first_hard(problems)
    if p is None:
        return Outcome("ok", case_id=h, nontrivial=has_nontrivial_edge(tree), classes=classes, sample={"tree": tree})
    lang = p["lang"].split(":")[0]
    bucket = f"{PROP}:{lang}:{p['kind']}:{_edge_signature(tree) if p['kind'] != 'literal' else 'float-literal'}"
    what = f"[{p['lang']}] {p['kind']}: {p['detail'][:700]} | text: {p.get('text', '')[:300]!r}"
    return Outcome("violation", case_id=h, classes=classes, key=f"{PROP}:{lang}:{p['kind']}:{h}", bucket=bucket, what=what,
                   replay={"kind": "expr", "tree": tree, "seed": seed, "problems": problems})


def outcome_for_stmts(stmts):
    problems = check_statements(stmts)
    h = spec_hash(stmts)
    if any(p["kind"] == "not-constructible" for p in problems):
        return Outcome("not-constructible", case_id=h, classes=["stmts"])
    p = _first_hard(problems)
    if p is None:
        return Outcome("ok", case_id=h, nontrivial=True, classes=["stmts"], sample={"statements": stmts})
    lang = p["lang"].split(":")[0]
    kinds = "+".join(sorted({s[0] for s in stmts}))
    bucket = f"{PROP}:{lang}:stmt-{p['kind']}:{kinds}"
    what = f"[{p['lang']}] {p['kind']}: {p['detail'][:700]} | text: {p.get('text', '')[:300]!r}"
    return Outcome("violation", case_id=h, classes=["stmts"], key=f"{PROP}:{lang}:stmt-{p['kind']}:{h}", bucket=bucket, what=what,
                   replay={"kind": "stmts", "statements": stmts, "problems": problems})


def shard(shard, nshards, n_expr, n_stmt, seed):
    res = ShardResult()
    drive(st.tuples(lnstrategies.expression(4), st.integers(0, 2**31 - 1)), lambda c: outcome_for_expr(c[0], c[1]), n_expr,
          (PROP, seed, shard, "expr"), res, shrink_calls=400, max_buckets=6)
    drive(lnstrategies.statements(2), outcome_for_stmts, n_stmt, (PROP, seed, shard, "stmt"), res, shrink_calls=300, max_buckets=4)
    return res


def run(tier: str) -> int:
    run_ = Run(PROP, tier, "exploration", RULE)
    # (1) exhaustive depth-2 triples
    trees = lnstrategies.depth2_trees()
    triples_ok = 0
    for label, tree in trees:
        o = outcome_for_expr(tree, 12345)
        run_.case(o.case_id, o.status == "ok", sample=None, classes=["depth2"])
        if o.status == "violation":
            parent, child, pos = label.split("/")
            run_.fail(f"{PROP}:depth2:{o.bucket.split(':')[1]}:{o.bucket.split(':')[2]}:{label}", f"depth-2 triple {label}: {o.what}", o.replay,
                      bucket=f"{PROP}:depth2:{o.bucket.split(':')[1]}:{o.bucket.split(':')[2]}:{parent}>{child.rstrip('0123456789+-c') or child}")
        elif o.status == "ok":
            triples_ok += 1
    # (1b) every math function x operand type class x scalar type (the formatters' name tables, exhaustively)
    nmath = 0
    for name in ALL_MATH:
        for operand in (["Sym", "a", "REAL"], ["Sym", "s", "SCALAR"], ["Acc", "w", "SCALAR", [["Sym", "i", "INT"]]]):
            args = [operand] if name not in lnstrategies.MATH2 + lnstrategies.MATH_BESSEL else (
                [["LitI", 1], operand] if name in lnstrategies.MATH_BESSEL else [operand, ["Sym", "b", "REAL"]])
            tree = ["Math", name, args]
            o = outcome_for_expr(tree, 777)
            nmath += 1
            run_.case(o.case_id, o.status == "ok", sample=None, classes=["math-table"])
            if o.status == "violation":
                run_.fail(f"{PROP}:math-table:{name}:{operand[2]}:{o.bucket.split(':')[1]}", f"math function {name} on a {operand[2]} operand: {o.what}", o.replay,
                          bucket=f"{PROP}:math-table:{name}:{o.bucket.split(':')[1]}")
    # (1c) array declarations: every small shape x every awkward literal (single-entry and multi-dimensional initialisers take
    # different paths in the formatters)
    narr = 0
    awkward = [1.0000000000000004, 1.427734375, 2.2250738585072014e-308, 5e-324, 1.7976931348623157e308, 123456789.12345679, -0.30000000000000004, 1 / 3, 0.1 + 0.2]

    def nest(flat, shape):
        if len(shape) == 1:
            return list(flat)
        step = len(flat) // shape[0]
        return [nest(flat[i * step:(i + 1) * step], shape[1:]) for i in range(shape[0])]

    for shape in ([1], [1, 1], [1, 1, 1, 1], [2], [1, 2], [2, 1], [1, 1, 2, 3], [3, 1, 1, 1]):
        n = int(np.prod(shape))
        for k, v in enumerate(awkward):
            flat = [awkward[(k + j) % len(awkward)] for j in range(n)]
            for dt in ("REAL", "SCALAR"):
                for const in (True, False):
                    stmts = [["ArrDecl", "FE3_C0_D01_Q083", dt, shape, nest(flat, shape), const]]
                    o = outcome_for_stmts(stmts)
                    narr += 1
                    run_.case(o.case_id, o.status == "ok", sample=None, classes=["array-decl"])
                    if o.status == "violation":
                        run_.fail(f"{PROP}:array-decl:{shape}:{v!r}:{dt}:{o.bucket.split(':')[1]}", f"array declaration of shape {shape}: {o.what}", o.replay,
                                  bucket=f"{PROP}:array-decl:{'single-entry' if n == 1 else 'multi-entry'}:{len(shape)}d:{o.bucket.split(':')[1]}")
    run_.extra["array_declarations_enumerated"] = narr
    run_.extra["math_functions_enumerated"] = nmath
    run_.extra["depth2_triples_enumerated"] = len(trees)
    run_.extra["depth2_triples_round_tripped"] = triples_ok
    run_.extra["depth2_exhaustive"] = True
    # (2) random trees / statements
    n_expr, n_stmt = (200, 40) if tier == "quick" else (thorough(6000), thorough(800))
    for part in run_shards(shard, 16, n_expr=n_expr, n_stmt=n_stmt, seed=verif_seed()):
        run_.merge(part)
    if tier == "thorough":
        run_.extra["atheris"] = fuzz_campaign(run_, seconds=240)
    run_.assumptions = [
        "pycparser's C grammar and CPython's ast are the reference grammars",
        "math function names are judged against the C99 <math.h>/<complex.h> and numpy names written down in the harness (not FFCx's tables)",
        "INT/INT division and conditions used as arithmetic operands are outside the generated domain (ill-typed)",
    ]
    return run_.finish()


def fuzz_campaign(run_, seconds=240):
    """Coverage-guided campaign through the same strategy/oracle (atheris + Hypothesis fuzz_one_input)."""
    import os
    import subprocess
    import sys

    from ..common import VERIF, scratch

    deps = VERIF / ".deps"
    if not (deps / "atheris").exists():
        return {"status": "atheris unavailable (not installed in .deps by setup_cmd)"}
    with scratch("vf-c16-fuzz-") as wd:
        out = wd / "result.json"
        env = dict(os.environ, PYTHONPATH=f"{deps}:{VERIF}", VF_FUZZ_OUT=str(out))
        cmd = [sys.executable, "-m", "vf.fuzz_c16", f"-max_total_time={seconds}", f"-seed={verif_seed() or 1}", str(wd / "corpus")]
        (wd / "corpus").mkdir()
        r = subprocess.run(cmd, env=env, cwd=str(wd), capture_output=True, text=True, timeout=seconds + 300)
        info = {"status": f"exit {r.returncode}", "tail": r.stderr[-400:]}
        if out.exists():
            import json

            d = json.loads(out.read_text())
            info.update({k: d[k] for k in ("executions", "violations")})
            for v in d.get("found", []):
                run_.fail(v["key"], v["what"], v["replay"], bucket=v["bucket"])
            run_.evaluations += int(d.get("executions", 0))
        return info


def replay(doc) -> int:
    rp = doc["replay"]
    if rp["kind"] == "expr":
        o = outcome_for_expr(rp["tree"], rp.get("seed", 0))
    else:
        o = outcome_for_stmts(rp["statements"])
    print(o.status, o.what)
    if o.status == "violation":
        print(f"VIOLATION property={PROP} replay=(replayed)")
        return 1
    return 0
