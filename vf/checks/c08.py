"""C08  Kernels stay inside the extents the UFCx contract gives them (DESIGN.md 5, C08)."""

from __future__ import annotations

import basix
import numpy as np
import ufl
from hypothesis import strategies as st

from .. import astgen, formcheck, inputs, kernels, lntree, refeval, sanitize, specs, strategies
from ..common import Run, ShardResult, run_shards, scratch, spec_hash, verif_seed
from ..common import thorough  # noqa: E402
from ..hyp import Outcome, drive

PROP = "C08"
RULE = (
    "Hypothesis-generated kernels of every kind - cell, exterior/interior facet and vertex integrals (all cells incl. prisms), "
    "part='diagonal', sum-factorised tensor-product forms, expressions at cell and facet points - exercised in two ways: (1) the "
    "generated C is linked with a generated driver that mallocs A, w, c, coordinate_dofs, entity_local_index and "
    "quadrature_permutation at exactly the extents implied by the *form* (element dimensions from UFL/basix, constants, 3 x "
    "nodes, doubled for interior facets; NULL entity/permutation pointers for cell kernels) and calls every kernel for every "
    "valid (entity, permutation) tuple under clang AddressSanitizer + UBSan (bounds); (2) FFCx's own kernel AST is executed by an "
    "interpreter that checks every ArrayAccess of every loop iteration against the declared sizes (catches overruns inside the "
    "kernel's own tables, which a heap sanitizer cannot see) and treats a read of an absent entity/permutation pointer as a "
    "fault. Non-trivial = kernel with a coefficient or a table access inside a dof loop; distinct by spec hash."
)
P_FORMS = {"measures": ["dx", "ds", "dS", "dP"], "ids": "few", "max_integrals": 3, "depth": 1, "maxdeg": 2, "max_qdeg": 3, "p_scheme": 0.05}
P_SMALL = {"cells": ["interval", "triangle", "quadrilateral", "tetrahedron"], "measures": ["dx", "ds", "dS", "dP"], "ids": "few", "max_integrals": 2,
           "depth": 1, "maxdeg": 2, "max_qdeg": 2, "p_scheme": 0.0, "ncoef": (0, 2)}
P_TP = {"cells": ["quadrilateral", "hexahedron"], "measures": ["dx"], "tp": True, "maxdeg": 2, "max_integrals": 2, "depth": 1, "manifold": 0.0,
        "min_qdeg": 2, "max_qdeg": 3, "p_scheme": 0.0, "p_vertex": 0.0, "ncoef": (0, 2)}
NPERM = {"interval": 1, "triangle": 2, "quadrilateral": 2, "tetrahedron": 6, "hexahedron": 8, "prism": 1}


def entity_table(cell):
    topo = basix.topology(refeval.CT[cell])
    tdim = len(topo) - 1
    out = {}
    for t, dim in ((1, tdim - 1), (2, tdim - 1), (3, 0)):
        tags = {}
        for e in range(len(topo[dim])):
            tag = int(refeval.sub_entity_type(cell, dim, e).value)
            tags.setdefault(tag, []).append(e)
        out[t] = tags
    return out


def form_sizes(form, fd, diagonal=False):
    dims = [e.dim for e in fd.argument_elements]
    if diagonal and len(dims) == 2:
        dims = dims[:1]
    ncoef = sum(c.ufl_function_space().ufl_element().dim for c in fd.reduced_coefficients)
    nc = sum(int(np.prod(c.ufl_shape)) if c.ufl_shape else 1 for c in form.constants())
    nodes = fd.integral_data[0].domain.ufl_coordinate_element().dim // fd.integral_data[0].domain.geometric_dimension
    sizes = {}
    for t in range(5):
        w = 2 if t == 2 else 1
        sizes[t] = (int(np.prod([w * d for d in dims])) if dims else 1, ncoef * w, nc, 3 * nodes * w)
    return sizes


def asan_form(spec, wd, options, classes, tag):
    sclean = strategies.strip_meta(spec)
    h = spec_hash([sclean, options])
    built = specs.build(sclean)
    if built.form.empty():
        return None, "zero-form"
    st_ = options.get("scalar_type", "float64")
    try:
        header, source, names = kernels.generate_code([built.form], options)
    except Exception as e:
        return None, "rejected:" + type(e).__name__
    fd = refeval.compute_form_data(built.form, st_)
    sizes = form_sizes(built.form, fd, diagonal=options.get("part") == "diagonal")
    drv = sanitize.form_driver(names[0][1], st_, sizes, entity_table(spec["cell"]), NPERM[spec["cell"]])
    status, detail = sanitize.build_and_run(source, drv, wd, f"{tag}{h}", mode="asan")
    return (status, detail), None


def interp_form(spec, classes):
    """Execute the kernel ASTs of a small form with bounds checks; returns None or (kind, message)."""
    sclean = strategies.strip_meta(spec)
    built = specs.build(sclean)
    if built.form.empty():
        return None
    opts = {"scalar_type": "float64"}
    try:
        asts, ir = astgen.integral_asts(built.form, opts, mode="full")
    except Exception:
        return None
    fd = refeval.compute_form_data(built.form, "float64")
    sizes = form_sizes(built.form, fd)
    cell = spec["cell"]
    et = entity_table(cell)
    rng = np.random.default_rng(spec.get("data_seed", 0))
    for a in asts:
        t = kernels.ITYPES.index(a["itype"])
        nA, nw, nc, nx = sizes[t]
        if nA > 1200:
            continue
        tree = lntree.unbuild(a["node"])
        w = rng.uniform(0.5, 1.5, nw)
        c = rng.uniform(0.5, 1.5, nc)
        x = rng.uniform(0.1, 1.0, nx) + np.tile([1.0, 0, 0, 0, 1.0, 0, 0, 0, 1.0], nx // 9 + 1)[:nx]
        if t == 0:
            combos = [(None, None)]
        else:
            ents = et[t].get(a["domain"], [])
            if t == 2:
                npm = NPERM[cell]
                combos = [((e, f), (p, q)) for e in ents for f in (ents[0], ents[-1]) for p in {0, npm - 1} for q in {0, npm - 1}]
            else:
                combos = [((e,), None) for e in ents]
        for ent, perm in combos[:24]:
            try:
                astgen.execute_kernel(tree, nA, w, c, x, entity=None if ent is None else list(ent), perm=None if perm is None else list(perm))
            except lntree.OutOfBounds as e:
                return ("ast-out-of-bounds", f"{a['itype']} kernel (domain tag {a['domain']}), entity {ent}, permutation {perm}: {e}")
            except lntree.Undefined as e:
                return ("ast-undefined-or-null", f"{a['itype']} kernel, entity {ent}, permutation {perm}: read of {e} which the contract does not provide "
                        f"(cell kernels get NULL entity/permutation pointers)")
            except (ZeroDivisionError, ValueError, OverflowError, RuntimeError):
                continue
    return None


def evaluate(case, wd):
    kind, spec = case
    sclean = strategies.strip_meta(spec)
    h = spec_hash([kind, sclean])
    is_expr = spec.get("kind") == "expr"
    classes = [f"family:{kind}"] + (strategies.expr_classes(spec) if is_expr else strategies.spec_classes(spec))
    replay = {"family": kind, "spec": sclean, "ufl_source": specs.to_source(sclean)}
    sample = {"family": kind, "spec": sclean}

    def viol(k, what):
        return Outcome("violation", case_id=h, classes=classes, key=f"{PROP}:{k}:{h}", bucket=f"{PROP}:{k}:{kind}:{spec['cell']}", what=what, replay=replay, sample=sample)

    if is_expr:
        built = specs.build(sclean)
        expr, pts = built.obj
        st_ = "float64"
        try:
            header, source, names = kernels.generate_code([(expr, pts)], {"scalar_type": st_})
        except Exception as e:
            return Outcome("rejected", case_id=h, classes=classes + ["rejected:" + type(e).__name__])
        low = refeval.lower_expression(expr, st_)
        args = ufl.algorithms.extract_arguments(low)
        ndofs = args[0].ufl_function_space().ufl_element().dim if args else 1
        ncomp = int(np.prod(expr.ufl_shape)) if expr.ufl_shape else 1
        nw = sum(c.ufl_function_space().ufl_element().dim for c in ufl.algorithms.extract_coefficients(low))
        nc = sum(int(np.prod(c.ufl_shape)) if c.ufl_shape else 1 for c in ufl.algorithms.analysis.extract_constants(expr))
        nodes = built.mesh.ufl_coordinate_element().dim // built.mesh.geometric_dimension
        facet = bool(spec.get("facet"))
        ents = list(range(formcheck.entity_count(spec["cell"], "exterior_facet"))) if facet else []
        drv = sanitize.expression_driver(names[0][1], st_, pts.shape[0] * ncomp * ndofs, nw, nc, 3 * nodes, ents, NPERM[spec["cell"]] if facet else 1)
        status, detail = sanitize.build_and_run(source, drv, wd, f"e{h}", mode="asan")
        if status == "report":
            return viol("asan", f"expression kernel: sanitizer report with exact-extent buffers:\n{detail[:1500]}")
        if status != "clean":
            return Outcome("harness-" + status, case_id=h, classes=classes, what=detail[:500])
        return Outcome("ok", case_id=h, nontrivial=bool(spec["coefs"]) or bool(spec["args"]), classes=classes, sample=sample)

    options = {"scalar_type": ["float64", "float64", "float32"][spec["data_seed"] % 3]}
    if kind == "diagonal":
        options["part"] = "diagonal"
    if kind == "sumfact":
        options["sum_factorization"] = True
    res, why = asan_form(spec, wd, options, classes, kind[0])
    if res is None:
        return Outcome(why.split(":")[0], case_id=h, classes=classes + [why])
    status, detail = res
    if status == "report":
        return viol("asan", f"options {options}: sanitizer report with exact-extent buffers:\n{detail[:1500]}")
    if status != "clean":
        return Outcome("harness-" + status, case_id=h, classes=classes, what=detail[:500])
    classes.append("asan-clean:" + detail[:20])
    if kind == "small":
        r = interp_form(spec, classes)
        if r:
            return viol(r[0], r[1])
        classes.append("ast-interpreted")
    return Outcome("ok", case_id=h, nontrivial=bool(spec["coefs"]) or bool(spec["args"]), classes=classes, sample=sample)


def cases():
    return st.one_of(
        st.tuples(st.just("forms"), strategies.form_specs(P_FORMS)),
        st.tuples(st.just("forms"), strategies.template_specs(P_FORMS)),
        st.tuples(st.just("small"), strategies.form_specs(P_SMALL)),
        st.tuples(st.just("small"), strategies.form_specs(P_SMALL)),
        st.tuples(st.just("diagonal"), strategies.form_specs(dict(P_SMALL, arities=[2], same_args=True))),
        st.tuples(st.just("sumfact"), strategies.form_specs(P_TP)),
        st.tuples(st.just("expr"), strategies.expr_specs()),
    )


def shard(shard, nshards, n, seed):
    res = ShardResult()
    with scratch(f"vf-c08-{shard}-") as wd:
        drive(cases(), lambda c: evaluate(c, wd), n, (PROP, seed, shard), res, shrink_calls=25)
    return res


def run(tier: str) -> int:
    run_ = Run(PROP, tier, "exploration", RULE)
    n = 12 if tier == "quick" else thorough(30)
    parts = run_shards(shard, 16, n=n, seed=verif_seed())
    for part in parts:
        if part.get("crash"):
            # a worker killed by a signal while a generated kernel ran natively is itself an extent violation candidate
            part["harness_errors"] = [m for m in part["harness_errors"]]
        run_.merge(part)
    run_.assumptions = [
        "extents are computed from UFL form data and basix element dimensions, never from FFCx",
        "clang AddressSanitizer/UBSan detect heap accesses outside the exact-size buffers; intra-table overruns are covered by the AST interpreter on small forms",
    ]
    return run_.finish()


def replay(doc) -> int:
    rp = doc["replay"]
    with scratch("vf-replay-") as wd:
        o = evaluate((rp["family"], rp["spec"]), wd)
    print(o.status, o.what)
    if o.status == "violation":
        print(f"VIOLATION property={PROP} replay=(replayed)")
        return 1
    return 0
