"""C07  Kernels accumulate into A and are pure functions of their inputs (DESIGN.md 5, C07)."""

from __future__ import annotations

import re
import subprocess
from concurrent.futures import ThreadPoolExecutor

import hypothesis
import numpy as np
import ufl
from hypothesis import HealthCheck, settings
from hypothesis import strategies as st
from hypothesis.stateful import RuleBasedStateMachine, invariant, precondition, rule, run_state_machine_as_test

from .. import formcheck, inputs, kernels, refeval, sanitize, specs, strategies
from ..common import Run, ShardResult, canon, derive_seed, leave_crumb, run_shards, scratch, spec_hash, verif_seed
from ..common import thorough  # noqa: E402
from ..hyp import Outcome, drive
from .c08 import NPERM, entity_table, form_sizes

PROP = "C07"
RULE = (
    "A pool of compiled kernels (Hypothesis-generated cell/facet/interior-facet forms of arity 0-2, template instances, sum-factorised "
    "tensor-product kernels, part='diagonal' kernels and expression kernels with and "
    "without arguments) driven by a Hypothesis RuleBasedStateMachine whose rules call kernel k on input set s into an A pre-filled "
    "with zeros / random values / huge values / a previous result, repeat calls, interleave kernels, and run batches of calls "
    "concurrently from a thread pool on disjoint A (cffi releases the GIL). Oracles: (1) equal (k, s, A_before) gives "
    "bit-identical A_after wherever in the history and on whichever thread; (2) A_after - A_before equals the zero-start "
    "result within accumulated rounding (a kernel that assigns fails on non-zero pre-fill); (3) all inputs byte-identical after "
    "each call (guard zones); (4) clang ThreadSanitizer driver: N threads on shared inputs and disjoint outputs, no race report; "
    "(5) the compiled object has no writable static storage besides the descriptor structs (nm). Non-trivial = history with a "
    "repeated (k,s) at different positions and a non-zero pre-fill, or a threaded batch; distinct by history hash."
)
P_POOL = {"measures": ["dx", "dx", "ds", "dS"], "ids": "simple", "max_integrals": 2, "depth": 1, "maxdeg": 2, "max_qdeg": 3, "p_scheme": 0.0}
ALLOWED_DATA = re.compile(r"^(form_|integral_|expression_|enabled_coefficients_|original_coefficient_position|finite_element_hashes_|form_integral|"
                          r"coefficient_names_|constant_names_|constant_shapes_|constant_ranks_|constant_shape_|points_expression|value_shape_)")


class Entry:
    """One callable kernel with fixed inputs."""

    def __init__(self, label, fn, shape, dtype, complex_):
        self.label = label
        self.fn = fn
        self.shape = shape
        self.dtype = dtype
        self.complex = complex_
        self.zero = None

    def call(self, A0):
        return self.fn(A0)


def build_pool(specs_list, wd):
    """Compile specs; return (entries, problems) where problems are immediate violations (guards, static data)."""
    entries = []
    problems = []
    for k, spec in enumerate(specs_list):
        is_expr = spec.get("kind") == "expr"
        sclean = strategies.strip_meta(spec)
        st_ = ["float64", "float64", "float32"][spec["data_seed"] % 3] if not is_expr else "float64"
        try:
            if is_expr:
                built = specs.build(sclean)
                expr, pts = built.obj
                mod = kernels.compile_module([(expr, pts)], {"scalar_type": st_}, workdir=wd, name=f"pe{k}")
                d = kernels.read_expression_descriptor(mod.ffi, mod.objects[0])
                low = refeval.lower_expression(expr, st_)
                args = ufl.algorithms.extract_arguments(low)
                ndofs = args[0].ufl_function_space().ufl_element().dim if args else None
                ncomp = int(np.prod(expr.ufl_shape)) if expr.ufl_shape else 1
                shape = (pts.shape[0], ncomp) + ((ndofs,) if ndofs else ())
                ocoefs = ufl.algorithms.extract_coefficients(expr)
                oconsts = ufl.algorithms.analysis.extract_constants(expr)
                for s in range(2):
                    data = inputs.FormData(built, spec["data_seed"] + 31 * s)
                    w = inputs.pack_w(ocoefs, d["original_coefficient_positions"], data, 1)
                    c = inputs.pack_c(oconsts[: d["num_constants"]], data)
                    x = inputs.pack_coordinates(data.x, 1)
                    facet = bool(spec.get("facet"))

                    def fn(A0, w=w, c=c, x=x, facet=facet, mod=mod, shape=shape, st_=st_):
                        r = kernels.call_kernel(mod.ffi, mod.objects[0], st_, shape, w, c, x, entity=[0] if facet else None, perm=[0] if facet else None, A0=A0)
                        return r.A, r.problems

                    entries.append(Entry(f"expr{k}/in{s}", fn, shape, np.dtype(st_), False))
                src_mod = mod
            else:
                opts = dict(spec.get("jit_options") or {})
                fr = formcheck.FormRunner(spec, wd, scalar_type=st_, options=opts, name=f"pf{k}")
                if fr.is_zero_form():
                    continue
                fr.compile()
                diag = opts.get("part") == "diagonal" and len(spec["args"]) == 2
                src_mod = fr.module
                for itype, sid in fr.declared_groups():
                    width = 2 if itype == "interior_facet" else 1
                    dims = [e.dim for e in fr.fd.argument_elements]
                    shape = tuple(width * n for n in dims)
                    if diag:
                        shape = shape[:1]
                    nent = formcheck.entity_count(spec["cell"], itype)
                    for s in range(2):
                        data = inputs.FormData(fr.built, spec["data_seed"] + 31 * s, complex_=fr.complex)
                        ent = (nent - 1, 0)

                        def fn(A0, fr=fr, itype=itype, sid=sid, data=data, ent=ent, diag=diag):
                            A, problems, n, _ = fr.run_group(itype, sid, data, entity=ent, A0=A0, diagonal=diag)
                            return A, problems

                        label = f"form{k}/{itype}/{sid}/in{s}" + ("".join(f"/{a}={b}" for a, b in sorted(opts.items())) if opts else "")
                        entries.append(Entry(label, fn, shape, np.dtype(st_), fr.complex))
            # (5) no writable static storage besides descriptors
            obj = kernels.cc_compile(src_mod.source, wd, f"obj{k}", cflags=("-O0", "-w"), shared=False)
            out = subprocess.run(["nm", str(obj)], capture_output=True, text=True).stdout
            for line in out.split("\n"):
                parts = line.split()
                if len(parts) >= 3 and parts[-2] in ("d", "D", "b", "B", "C"):
                    name = parts[-1]
                    if not ALLOWED_DATA.match(name):
                        problems.append((f"{PROP}:static-data", f"generated object of spec {k} has writable static storage '{name}' (nm type {parts[-2]}): "
                                         f"kernels sharing it are not re-entrant", sclean))
        except (kernels.Rejected, kernels.CompileError):
            continue
    # zero-start results
    for e in entries:
        A, pr = e.call(None)
        e.zero = np.asarray(A).copy()
    return entries, problems


def prefill(kind, entry, seed, memo):
    n = int(np.prod(entry.shape)) if entry.shape else 1
    if kind == "zeros":
        return np.zeros(entry.shape, dtype=entry.dtype)
    if kind == "random":
        return inputs.coefficient_values(inputs.rng_for(seed, 3), n, entry.complex).reshape(entry.shape).astype(entry.dtype)
    if kind == "huge":
        return np.full(entry.shape, 1e6, dtype=entry.dtype)
    prev = memo.get(("prev", entry.label))
    return prev.copy() if prev is not None else np.zeros(entry.shape, dtype=entry.dtype)


def run_history(pool, wd_seed, nsteps_settings):
    """Run the state machine over a pool; returns (failure|None, stats)."""
    stats = {"steps": 0, "threaded": 0, "repeats": 0, "nonzero_prefill": 0}
    failure = {}

    class Machine(RuleBasedStateMachine):
        def __init__(self):
            super().__init__()
            self.memo = {}
            self.prev = {}
            self.history = []

        def _check(self, e, kind, seed, A0, A, problems, where):
            key = (e.label, kind, seed if kind == "random" else 0, A0.tobytes())
            self.history.append([e.label, kind, seed, where])
            if problems:
                failure["v"] = ("inputs", f"{e.label} ({where}): " + "; ".join(problems), self.history[-8:])
                raise AssertionError("inputs modified")
            b = np.asarray(A).tobytes()
            if key in self.memo:
                stats["repeats"] += 1
                if self.memo[key] != b:
                    failure["v"] = ("history-dependence", f"{e.label}: the same kernel, inputs and A_before gave different bytes of A_after at another point of the "
                                    f"history ({where})", self.history[-8:])
                    raise AssertionError("history dependence")
            else:
                self.memo[key] = b
            # accumulation
            d = np.asarray(A).astype(np.complex128) - A0.astype(np.complex128)
            z = e.zero.astype(np.complex128)
            u = float(np.finfo(np.zeros(1, dtype=e.dtype).real.dtype).eps)
            # an entry may be a sum of cancelling terms (|z| tiny): the partial sums round at the magnitude of the terms, for which
            # the largest entry of the tensor is the available proxy
            tol = 512 * u * (np.abs(A0) + np.abs(z) + float(np.max(np.abs(z), initial=0.0))) + 1e-300
            if not np.all(np.abs(d - z) <= tol):
                i = int(np.argmax(np.abs(d - z) - tol))
                failure["v"] = ("not-accumulating", f"{e.label} ({where}, pre-fill {kind}): A_after - A_before = {d.ravel()[i]!r} but the kernel's zero-start result is "
                                f"{z.ravel()[i]!r}: the kernel does not compute A += T independently of A's previous contents", self.history[-8:])
                raise AssertionError("not accumulating")
            self.prev[("prev", e.label)] = np.asarray(A).copy()

        @rule(k=st.integers(0, len(pool) - 1), kind=st.sampled_from(["zeros", "random", "random", "huge", "prev"]), seed=st.integers(0, 3))
        def call(self, k, kind, seed):
            e = pool[k]
            A0 = prefill(kind, e, seed, self.prev)
            if kind != "zeros":
                stats["nonzero_prefill"] += 1
            A, problems = e.call(A0.copy())
            stats["steps"] += 1
            self._check(e, kind, seed, A0, A, problems, "sequential")

        @rule(ks=st.lists(st.integers(0, len(pool) - 1), min_size=2, max_size=6), seed=st.integers(0, 3))
        def threaded_batch(self, ks, seed):
            jobs = []
            for k in ks:
                e = pool[k]
                A0 = prefill("random", e, seed, self.prev)
                jobs.append((e, A0))
            with ThreadPoolExecutor(max_workers=len(jobs)) as ex:
                futs = [ex.submit(e.call, A0.copy()) for e, A0 in jobs]
                outs = [f.result() for f in futs]
            stats["threaded"] += 1
            stats["steps"] += len(jobs)
            for (e, A0), (A, problems) in zip(jobs, outs):
                self._check(e, "random", seed, A0, A, problems, "thread pool")

    try:
        run_state_machine_as_test(
            hypothesis.seed(wd_seed)(Machine),
            settings=settings(max_examples=nsteps_settings[0], stateful_step_count=nsteps_settings[1], deadline=None, database=None,
                              suppress_health_check=list(HealthCheck), report_multiple_bugs=False, print_blob=False),
        )
    except AssertionError:
        pass
    return failure.get("v"), stats


def tsan_forms(pool_specs, wd, max_n):
    """(4) ThreadSanitizer driver on a few form modules.  Returns list of (label, report)."""
    reports = []
    done = 0
    for k, spec in enumerate(pool_specs):
        if spec.get("kind") == "expr" or done >= max_n:
            continue
        sclean = strategies.strip_meta(spec)
        built = specs.build(sclean)
        if built.form.empty():
            continue
        try:
            header, source, names = kernels.generate_code([built.form], dict(spec.get("jit_options") or {}, scalar_type="float64"))
        except Exception:
            continue
        fd = refeval.compute_form_data(built.form, "float64")
        drv = sanitize.form_driver(names[0][1], "float64", form_sizes(built.form, fd), entity_table(spec["cell"]), 1, threads=4, reps=20)
        status, detail = sanitize.build_and_run(source, drv, wd, f"t{k}", mode="tsan")
        done += 1
        if status == "report":
            reports.append((sclean, detail))
    return reports, done


def shard(shard, nshards, npool, nhist, nsteps, ntsan, seed):
    res = ShardResult()
    with scratch(f"vf-c07-{shard}-") as wd:
        # pool: generated through Hypothesis (deterministic in the seed)
        pool_specs = []

        def collect(spec):
            pool_specs.append(spec)
            return Outcome("ok", case_id=spec_hash(strategies.strip_meta(spec)), nontrivial=False, classes=["pool-spec"])

        tmp = ShardResult()
        from .c10 import P_DIAG, P_SUMFACT

        def with_options(strategy, options):
            return strategy.map(lambda s_: dict(s_, jit_options=options))

        drive(st.one_of(strategies.forms(P_POOL), strategies.forms(P_POOL), strategies.expr_specs(),
                        with_options(strategies.form_specs(dict(P_SUMFACT, arities=[1, 2])), {"sum_factorization": True}),
                        with_options(strategies.form_specs(dict(P_DIAG, measures=["dx", "ds"])), {"part": "diagonal"})),
              collect, npool, (PROP, seed, shard, "pool"), tmp)
        leave_crumb({"stage": "build_pool", "specs": [strategies.strip_meta(s) for s in pool_specs]})
        pool, problems = build_pool(pool_specs, wd)
        res.count("pool-kernels", len(pool))
        for key, what, sclean in problems:
            res.fail(f"{key}:{spec_hash(sclean)}", what, {"spec": sclean, "ufl_source": specs.to_source(sclean)}, bucket=key)
        if pool:
            leave_crumb({"stage": "state machine", "specs": [strategies.strip_meta(s) for s in pool_specs]})
            fail, stats = run_history(pool, derive_seed(PROP, seed, shard, "sm"), (nhist, nsteps))
            for k, v in stats.items():
                res.count("sm:" + k, v)
            res.evaluations += stats["steps"]
            if stats["repeats"] and stats["nonzero_prefill"]:
                res.nontrivial.add(f"history:{shard}:{seed}")
            if stats["threaded"]:
                res.nontrivial.add(f"threaded:{shard}:{seed}")
            res.samples.append({"pool": [e.label for e in pool][:6], "stats": stats})
            if fail:
                kind, what, hist = fail
                res.fail(f"{PROP}:{kind}:{spec_hash(hist)}", what, {"history_tail": hist, "pool_specs": [strategies.strip_meta(s) for s in pool_specs]},
                         bucket=f"{PROP}:{kind}")
        leave_crumb({"stage": "tsan"})
        reports, done = tsan_forms(pool_specs, wd, ntsan)
        res.count("tsan-modules", done)
        res.evaluations += done
        for sclean, detail in reports:
            res.fail(f"{PROP}:tsan:{spec_hash(sclean)}", f"ThreadSanitizer report for concurrent calls on shared inputs / disjoint A:\n{detail[:1500]}",
                     {"spec": sclean, "ufl_source": specs.to_source(sclean)}, bucket=f"{PROP}:tsan")
    return res


def run(tier: str) -> int:
    run_ = Run(PROP, tier, "exploration", RULE)
    npool, nhist, nsteps, ntsan = (4, 6, 25, 1) if tier == "quick" else (8, thorough(30), 60, 4)
    for part in run_shards(shard, 16, npool=npool, nhist=nhist, nsteps=nsteps, ntsan=ntsan, seed=verif_seed()):
        run_.merge(part)
    run_.assumptions = [
        "thread interleavings are not enumerated: bitwise agreement of concurrent calls plus ThreadSanitizer's happens-before analysis are the oracles",
        "accumulation tolerance 512 u (|A_before| + |T|) per entry",
    ]
    return run_.finish()


def replay(doc) -> int:
    rp = doc["replay"]
    specs_ = rp.get("pool_specs") or [rp["spec"]]
    with scratch("vf-replay-") as wd:
        pool, problems = build_pool(specs_, wd)
        if problems:
            print(problems[0][1])
            print(f"VIOLATION property={PROP} replay=(replayed)")
            return 1
        fail, stats = run_history(pool, 1, (30, 40)) if pool else (None, {})
        reports, _ = tsan_forms(specs_, wd, 4)
    if fail or reports:
        print(fail or reports[0][1][:500])
        print(f"VIOLATION property={PROP} replay=(replayed)")
        return 1
    print("ok", stats)
    return 0
