"""C13  JIT signatures are stable across processes and separate different inputs (DESIGN.md 5, C13)."""

from __future__ import annotations

import copy
import re

import numpy as np
from hypothesis import strategies as st

from .. import procs, specs, strategies
from ..common import Run, ShardResult, run_shards, scratch, spec_hash, verif_seed
from ..common import thorough  # noqa: E402
from ..hyp import Outcome, drive
from .c12 import histories

PROP = "C13"
RULE = (
    "Pairs of JIT requests (r, r') evaluated in separate fresh interpreters without compiling C: r is a generated request (1-2 "
    "forms or 1-2 expressions with points, options, compiler flags, debug flag); r' is either the same request rebuilt under a "
    "generated history / other PYTHONHASHSEED / different object counters, or a mutation of r: a literal changed, an operator "
    "swapped, quadrature metadata or element degree changed, evaluation points perturbed by 1e-3..1e-13 (also inside arrays of "
    "> 1000 points, and reshaped), scalar type, any option, compiler flags, debug flag, form order. Oracles: (1) same request => "
    "identical module and object names; (2) if the generated sources (hashes normalised) differ, or options/flags/scalar type "
    "differ, the module names differ; (3) all object names of a module are valid C identifiers, pairwise distinct and defined in "
    "the generated code. Non-trivial = a mutation pair whose sources differ, or a same-request pair with a non-empty history or "
    "another hash seed; distinct by pair hash. Sweep family: one request plus every applicable single mutation (3 literals, 2 operators, "
    "6 options, 3 scalar types, compiler flags added/reordered/dropped, debug, 3 point perturbations, point count/shape/order, metadata, degree, "
    "subdomain id, object order) named in one child; all pairs of the sweep are compared."
)
P_FORMS = {"measures": ["dx", "ds", "dS"], "ids": "simple", "max_integrals": 2, "depth": 2, "maxdeg": 2, "max_qdeg": 4}
IDENT = re.compile(r"^[A-Za-z_]\w*$")


def _lits(t, path=(), acc=None):
    acc = [] if acc is None else acc
    if isinstance(t, list):
        if len(t) == 2 and t[0] == "lit" and isinstance(t[1], (int, float)):
            acc.append(path)
        for i, a in enumerate(t):
            if isinstance(a, (list, dict)):
                _lits(a, path + (i,), acc)
    elif isinstance(t, dict):
        for k, v in t.items():
            if isinstance(v, (list, dict)) and not str(k).startswith("_"):
                _lits(v, path + (k,), acc)
    return acc


def _ops(t, names, path=(), acc=None):
    acc = [] if acc is None else acc
    if isinstance(t, list):
        if t and isinstance(t[0], str) and t[0] in names:
            acc.append(path)
        for i, a in enumerate(t):
            if isinstance(a, (list, dict)):
                _ops(a, names, path + (i,), acc)
    elif isinstance(t, dict):
        for k, v in t.items():
            if isinstance(v, (list, dict)) and not str(k).startswith("_"):
                _ops(v, names, path + (k,), acc)
    return acc


def _get(t, path):
    for p in path:
        t = t[p]
    return t


SWAPS = {"add": "sub", "sub": "add", "sin": "cos", "cos": "sin", "lt": "gt", "gt": "lt", "max": "min", "min": "max", "+": "-", "-": "+"}


@st.composite
def requests(draw):
    kind = draw(st.sampled_from(["forms", "forms", "exprs"]))
    if kind == "forms":
        targets = [draw(strategies.form_specs(P_FORMS)) for _ in range(draw(st.integers(1, 2)))]
    else:
        targets = [draw(strategies.expr_specs()) for _ in range(draw(st.integers(1, 2)))]
        if strategies.prob(draw, 0.15):
            # a large point set (numpy summarises the repr of arrays with > 1000 entries)
            t = targets[0]
            if not t.get("facet"):
                tdim = specs.TDIM[t["cell"]]
                n = 600
                base = np.asarray(t["points"][0])
                pts = [list(np.round(base * (0.2 + 0.6 * k / n), 6)) for k in range(n)]
                t["points"] = [[float(v) for v in p] for p in pts]
    opts = draw(st.sampled_from([{}, {}, {"scalar_type": "float32"}, {"scalar_type": "complex128"}, {"table_rtol": 1e-4}, {"sum_factorization": True},
                                 {"scalar_type": "float32", "table_atol": 1e-8}, {"scalar_type": "complex128", "table_rtol": 1e-5, "epsilon": 1e-12},
                                 {"table_rtol": 1e-5, "table_atol": 1e-10, "verbosity": 40, "part": "full"}]))
    jit = {"cflags": draw(st.sampled_from([[], ["-O1"], ["-O2", "-g0"], ["-O0", "-O2"], ["-O1", "-g0", "-fno-math-errno"]])), "debug": draw(st.booleans())}
    return {"targets": [strategies.strip_meta(t) for t in targets], "options": opts, "jit": jit}


@st.composite
def cases(draw):
    r = draw(requests())
    mode = draw(st.sampled_from(["same", "same", "mutate", "mutate", "mutate"]))
    r2 = copy.deepcopy(r)
    variant = {"steps": [], "hashseed": 0, "family": "first"}
    desc = "same"
    if mode == "same":
        variant = {"steps": draw(histories()), "hashseed": draw(st.sampled_from([0, 1, 5, 42, 31337])), "family": draw(st.sampled_from(["first", "after"]))}
        if draw(st.booleans()):
            for t in r2["targets"]:
                t["prelude"] = draw(st.integers(1, 5))
        desc = "same-request"
    else:
        is_expr = r["targets"][0].get("kind") == "expr"
        muts = ["literal", "operator", "option", "scalar", "cflags", "debug"]
        if is_expr:
            muts += ["points", "points", "points", "points-shape", "points-reshape", "points-reshape"]
        else:
            muts += ["metadata", "degree"]
        if len(r["targets"]) == 2:
            muts.append("order")
        m = draw(st.sampled_from(muts))
        desc = "mutate:" + m
        t = r2["targets"][0]
        if m == "literal":
            paths = _lits(t)
            if paths:
                p = draw(st.sampled_from(paths))
                node = _get(t, p)
                node[1] = node[1] + draw(st.sampled_from([1, 0.5, 1e-3, 1e-9, 1e-13])) if isinstance(node[1], float) else node[1] + 1
            else:
                desc = "mutate:none"
        elif m == "operator":
            paths = _ops(t, set(SWAPS))
            if paths:
                p = draw(st.sampled_from(paths))
                node = _get(t, p)
                node[0] = SWAPS[node[0]]
            else:
                desc = "mutate:none"
        elif m == "option":
            key, val = draw(st.sampled_from([("table_atol", 1e-7), ("epsilon", 1e-10), ("table_rtol", 1e-5)]))
            r2["options"] = dict(r2["options"], **{key: val})
        elif m == "scalar":
            cur = r["options"].get("scalar_type", "float64")
            r2["options"] = dict(r2["options"], scalar_type=draw(st.sampled_from([s for s in ("float32", "float64", "complex64", "complex128") if s != cur])))
        elif m == "cflags":
            r2["jit"] = dict(r2["jit"], cflags=r["jit"]["cflags"] + ["-fno-math-errno"])
        elif m == "debug":
            r2["jit"] = dict(r2["jit"], debug=not r["jit"]["debug"])
        elif m == "points":
            pts = t["points"]
            i = draw(st.integers(0, len(pts) - 1))
            if len(pts) > 100:
                i = len(pts) // 2  # hidden by numpy's summarised repr
            j = draw(st.integers(0, len(pts[i]) - 1))
            pts[i][j] = pts[i][j] + draw(st.sampled_from([1e-3, 1e-6, 1e-9, 1e-10, 1e-12, 1e-13]))
        elif m == "points-shape":
            pts = t["points"]
            if len(pts) >= 2:
                t["points"] = pts[:-1]
            else:
                t["points"] = pts + [[min(v + 0.01, 0.3) for v in pts[0]]]
        elif m == "points-reshape":
            # the same numbers in another shape: k cell points of a 2D cell <-> 2k facet points (and back)
            pts = t["points"]
            tdim = specs.TDIM[t["cell"]]
            flat = [v for p in pts for v in p]
            if tdim == 2 and not t.get("facet"):
                t["points"] = [[v] for v in flat]
                t["facet"] = True
            elif tdim == 2 and t.get("facet") and len(flat) % 2 == 0:
                t["points"] = [flat[i:i + 2] for i in range(0, len(flat), 2)]
                t["facet"] = False
            else:
                desc = "mutate:none"
        elif m == "metadata":
            I = t["integrals"][0]
            I["md"] = dict(I["md"], quadrature_degree=int(I["md"].get("quadrature_degree", 2)) + 1)
        elif m == "degree":
            changed = False
            for E in t["elements"]:
                if E[0] == "el" and E[1] == "P" and E[2] in (1, 2) and not changed:
                    E[2] = E[2] + 1
                    changed = True
            if not changed:
                desc = "mutate:none"
        elif m == "order":
            r2["targets"] = r2["targets"][::-1]
    return {"r": r, "r2": r2, "variant": variant, "desc": desc}


@st.composite
def sweeps(draw):
    """One request and *every* applicable single mutation of it (parameters drawn), all named in one child process."""
    r = draw(requests())
    muts = []

    def add(desc, fn):
        r2 = copy.deepcopy(r)
        if fn(r2) is not False:
            muts.append({"desc": desc, "r": r2})

    t0 = r["targets"][0]
    is_expr = t0.get("kind") == "expr"
    lit_paths = _lits(t0)
    for p in (draw(st.permutations(lit_paths))[:3] if lit_paths else []):
        delta = draw(st.sampled_from([1, 0.5, 1e-3, 1e-9, 1e-13]))

        def f(r2, p=p, delta=delta):
            node = _get(r2["targets"][0], p)
            node[1] = node[1] + delta if isinstance(node[1], float) else node[1] + 1

        add("literal", f)
    op_paths = _ops(t0, set(SWAPS))
    for p in (draw(st.permutations(op_paths))[:2] if op_paths else []):
        def f(r2, p=p):
            node = _get(r2["targets"][0], p)
            node[0] = SWAPS[node[0]]

        add("operator", f)
    for key, val in [("table_atol", 1e-7), ("epsilon", 1e-10), ("table_rtol", 1e-5), ("part", "diagonal"), ("sum_factorization", True)]:
        if r["options"].get(key) != val:
            add("option:" + key, lambda r2, key=key, val=val: r2.__setitem__("options", dict(r2["options"], **{key: val})))
    cur = r["options"].get("scalar_type", "float64")
    for s_ in ("float32", "float64", "complex64", "complex128"):
        if s_ != cur:
            add("scalar", lambda r2, s_=s_: r2.__setitem__("options", dict(r2["options"], scalar_type=s_)))
    add("cflags-extra", lambda r2: r2.__setitem__("jit", dict(r2["jit"], cflags=r2["jit"]["cflags"] + ["-ffast-math"])))
    if len(r["jit"]["cflags"]) >= 2:
        add("cflags-reorder", lambda r2: r2.__setitem__("jit", dict(r2["jit"], cflags=r2["jit"]["cflags"][::-1])))
        add("cflags-drop", lambda r2: r2.__setitem__("jit", dict(r2["jit"], cflags=r2["jit"]["cflags"][:-1])))
    add("debug", lambda r2: r2.__setitem__("jit", dict(r2["jit"], debug=not r2["jit"]["debug"])))
    if is_expr:
        pts = t0["points"]
        for _ in range(3):
            i = draw(st.integers(0, len(pts) - 1)) if len(pts) <= 100 else draw(st.sampled_from([0, len(pts) // 2, len(pts) - 1]))
            j = draw(st.integers(0, len(pts[i]) - 1))
            d = draw(st.sampled_from([1e-3, 1e-6, 1e-9, 1e-10, 1e-12, 1e-13]))

            def f(r2, i=i, j=j, d=d):
                r2["targets"][0]["points"][i][j] += d

            add("points", f)

        def drop(r2):
            t = r2["targets"][0]
            t["points"] = t["points"][:-1] if len(t["points"]) >= 2 else t["points"] + [[min(v + 0.01, 0.3) for v in t["points"][0]]]

        add("points-shape", drop)

        def reshape(r2):
            t = r2["targets"][0]
            tdim = specs.TDIM[t["cell"]]
            flat = [v for p in t["points"] for v in p]
            if tdim >= 2 and not t.get("facet") and len(flat) % (tdim - 1) == 0:
                t["points"] = [flat[i:i + tdim - 1] for i in range(0, len(flat), tdim - 1)]
                t["facet"] = True
            elif tdim >= 2 and t.get("facet") and len(flat) % tdim == 0:
                t["points"] = [flat[i:i + tdim] for i in range(0, len(flat), tdim)]
                t["facet"] = False
            else:
                return False

        add("points-reshape", reshape)

        def swap_points(r2):
            t = r2["targets"][0]
            if len(t["points"]) < 2 or t["points"][0] == t["points"][-1]:
                return False
            t["points"] = t["points"][::-1]

        add("points-order", swap_points)
    else:
        for k, I in enumerate(t0["integrals"][:2]):
            add("metadata", lambda r2, k=k: r2["targets"][0]["integrals"][k].__setitem__(
                "md", dict(r2["targets"][0]["integrals"][k]["md"], quadrature_degree=int(r2["targets"][0]["integrals"][k]["md"].get("quadrature_degree", 2)) + 1)))

        def degree(r2):
            for E in r2["targets"][0]["elements"]:
                if E[0] == "el" and E[1] == "P" and E[2] in (1, 2):
                    E[2] = E[2] + 1
                    return None
            return False

        add("degree", degree)

        def sid(r2):
            I = r2["targets"][0]["integrals"][0]
            I["id"] = 9 if I.get("id") != 9 else 4

        add("subdomain-id", sid)
    if len(r["targets"]) == 2 and spec_hash(r["targets"][0]) != spec_hash(r["targets"][1]):
        add("order", lambda r2: r2.__setitem__("targets", r2["targets"][::-1]))
    return {"r": r, "mutants": muts}


def evaluate_sweep(case, wd):
    h = spec_hash(case)
    reqs = [case["r"]] + [m["r"] for m in case["mutants"]]
    descs = ["original"] + [m["desc"] for m in case["mutants"]]
    classes = ["sweep", f"kind:{case['r']['targets'][0].get('kind', 'form')}"]
    job = {"mode": "names-sweep", "requests": reqs}
    out, err = procs.run_job("vf.child_codegen", job, wd, f"{h}_sw", hashseed=0, timeout=1200)
    if out is None:
        return Outcome("harness-error", case_id=h, classes=classes, what=err)
    res = out["results"]
    if "error" in res[0]:
        return Outcome("rejected", case_id=h, classes=classes + ["rejected"], what=res[0]["error"])
    npairs = nt = 0
    for a in range(len(reqs)):
        if "error" in res[a]:
            classes.append("mutant-rejected:" + descs[a].split(":")[0])
            continue
        for b in range(a + 1, len(reqs)):
            if "error" in res[b]:
                continue
            differs = res[a]["source_digest"] != res[b]["source_digest"]
            must = differs or reqs[a]["options"] != reqs[b]["options"] or reqs[a]["jit"] != reqs[b]["jit"]
            npairs += 1
            if not must:
                classes.append("sources-equal:" + descs[b].split(":")[0])
                continue
            nt += 1
            if a == 0:
                classes.append("mut:" + descs[b].split(":")[0])
            if res[a]["module_name"] == res[b]["module_name"]:
                pair = {"r": reqs[a], "r2": reqs[b], "variant": {"steps": [], "hashseed": 0, "family": "first"}, "desc": f"mutate:{descs[a]}|{descs[b]}"}
                return Outcome("violation", case_id=h, classes=classes, key=f"{PROP}:collision:{descs[a]}|{descs[b]}:{h}", bucket=f"{PROP}:collision:{descs[a].split(':')[0]}|{descs[b].split(':')[0]}",
                               what=f"two requests that differ ({descs[a]} vs {descs[b]}; sources {'differ' if differs else 'equal, options/flags differ'}) share the module name "
                                    f"{res[a]['module_name']}", replay={"case": pair}, sample={"desc": pair["desc"]})
    classes.append(f"pairs:{min(npairs // 25 * 25, 200)}+")
    return Outcome("ok", case_id=h, nontrivial=nt > 0, classes=classes, sample={"descs": descs, "pairs_compared": npairs, "pairs_that_must_differ": nt})


def _object_signature(t):
    """UFL's own (renumbered) signature of the object a spec describes - two specs that differ only in unused spaces, coefficients or
    constants describe the same object and may share a name."""
    import ufl
    import ufl.corealg.traversal

    try:
        b = specs.build(strategies.strip_meta(t))
        if t.get("kind") == "expr":
            expr, pts = b.obj
            from ufl.algorithms.renumbering import renumber_indices
            from ufl.algorithms.signature import compute_expression_hashdata, compute_terminal_hashdata  # noqa: F401

            e2 = renumber_indices(expr)
            # terminals numbered in order of first appearance (what "the same expression" means independently of UFL counters)
            seen = {}
            parts = []
            for node in ufl.corealg.traversal.unique_pre_traversal(e2):
                if node._ufl_is_terminal_:
                    if isinstance(node, (ufl.classes.Coefficient, ufl.classes.Constant, ufl.classes.Argument)):
                        k = seen.setdefault(node, len(seen))
                        sp = node.ufl_function_space().ufl_element() if hasattr(node, "ufl_function_space") else node.ufl_shape
                        parts.append(f"{type(node).__name__}#{k}:{sp!r}")
                    elif isinstance(node, ufl.classes.GeometricQuantity):
                        parts.append(type(node).__name__)
                    else:
                        parts.append(repr(node))
                else:
                    parts.append(type(node).__name__ + str(len(node.ufl_operands)))
            return "E" + "|".join(parts) + repr((pts.shape, pts.tobytes()))
        return "F" + b.form.signature()
    except BaseException:  # noqa: BLE001 - cannot decide: treat as distinct objects
        return "S" + spec_hash(t)


def normalise(code):
    return [re.sub(r"[0-9a-f]{40}", "H", c) for c in code]


def run_request(req, variant, wd, tag):
    job = {"mode": "names", "with_code": True, "family": variant.get("family", "first"), "steps": variant.get("steps", []),
           "target": req["targets"], "options": req["options"], "jit": req["jit"]}
    return procs.run_job("vf.child_codegen", job, wd, tag, hashseed=variant.get("hashseed", 0))


def evaluate(case, wd):
    h = spec_hash(case)
    classes = [case["desc"], f"kind:{case['r']['targets'][0].get('kind', 'form')}", f"objects:{len(case['r']['targets'])}"]
    o1, e1 = run_request(case["r"], {"steps": [], "hashseed": 0, "family": "first"}, wd, f"{h}_r")
    if o1 is None:
        return Outcome("harness-error", case_id=h, classes=classes, what=e1)
    if "error" in o1:
        return Outcome("rejected", case_id=h, classes=classes + ["rejected"], what=o1["error"])
    o2, e2 = run_request(case["r2"], case["variant"], wd, f"{h}_r2")
    if o2 is None:
        return Outcome("harness-error", case_id=h, classes=classes, what=e2)
    replay = {"case": case}
    # (3) names within one module
    names = o1["object_names"]
    src = o1["code"][1]
    for n in names + [o1["module_name"]]:
        if not IDENT.match(n):
            return Outcome("violation", case_id=h, classes=classes, key=f"{PROP}:ident:{h}", bucket=f"{PROP}:identifier", what=f"name {n!r} is not a valid C identifier", replay=replay)
    if len(set(names)) != len(names):
        same = len({_object_signature(t) for t in case["r"]["targets"]}) < len(case["r"]["targets"])
        if not same:
            return Outcome("violation", case_id=h, classes=classes, key=f"{PROP}:dup:{h}", bucket=f"{PROP}:duplicate-object-names",
                           what=f"two different objects of one module share the name {names}", replay=replay)
    for n in names:
        if not re.search(r"\b(ufcx_form|ufcx_expression)\s+%s\s*=" % re.escape(n), src):
            return Outcome("violation", case_id=h, classes=classes, key=f"{PROP}:undefined:{h}", bucket=f"{PROP}:name-not-defined",
                           what=f"object name {n} computed for the JIT request is not defined by the generated code", replay=replay)
    if "error" in o2:
        if case["desc"] == "same-request":
            return Outcome("violation", case_id=h, classes=classes, key=f"{PROP}:error:{h}", bucket=f"{PROP}:same-request-error",
                           what=f"the same request raises in another process/history: {o2['error']}", replay=replay)
        return Outcome("ok", case_id=h, nontrivial=False, classes=classes + ["mutant-rejected"])
    if case["desc"] == "same-request":
        if o1["module_name"] != o2["module_name"] or o1["object_names"] != o2["object_names"]:
            v = case["variant"]
            return Outcome("violation", case_id=h, classes=classes, key=f"{PROP}:unstable:{h}", bucket=f"{PROP}:unstable-names:{case['r']['targets'][0].get('kind', 'form')}",
                           what=f"same request, different names: {o1['module_name']} vs {o2['module_name']} after history steps={len(v['steps'])} "
                                f"hashseed={v['hashseed']} family={v['family']}", replay=replay)
        nt = bool(case["variant"]["steps"]) or case["variant"]["hashseed"] != 0 or any("prelude" in t for t in case["r2"]["targets"])
        return Outcome("ok", case_id=h, nontrivial=nt, classes=classes, sample={"desc": case["desc"], "module": o1["module_name"]})
    # mutation
    differs = normalise(o1["code"]) != normalise(o2["code"])
    must_differ = differs or case["r"]["options"] != case["r2"]["options"] or case["r"]["jit"] != case["r2"]["jit"]
    classes.append("sources-differ" if differs else "sources-equal")
    if must_differ and o1["module_name"] == o2["module_name"]:
        return Outcome("violation", case_id=h, classes=classes, key=f"{PROP}:collision:{case['desc']}:{h}", bucket=f"{PROP}:collision:{case['desc']}",
                       what=f"two requests that generate different kernels ({case['desc']}) share the module name {o1['module_name']}", replay=replay,
                       sample={"desc": case["desc"]})
    if must_differ and set(o1["object_names"]) & set(o2["object_names"]) and differs and case["desc"] != "mutate:order":
        # object names embed the module name, so this cannot happen when module names differ; kept as a guard
        return Outcome("violation", case_id=h, classes=classes, key=f"{PROP}:objcollision:{h}", bucket=f"{PROP}:object-collision:{case['desc']}",
                       what=f"different kernels share an object name ({case['desc']})", replay=replay)
    return Outcome("ok", case_id=h, nontrivial=differs, classes=classes, sample={"desc": case["desc"], "modules": [o1["module_name"], o2["module_name"]]})


def shard(shard, nshards, n, seed):
    res = ShardResult()
    with scratch(f"vf-c13-{shard}-") as wd:
        drive(cases(), lambda c: evaluate(c, wd), n, (PROP, seed, shard), res, shrink_calls=15, max_buckets=3, shrink_seconds=60)
        drive(sweeps(), lambda c: evaluate_sweep(c, wd), max(2, n // 2), (PROP, seed, shard, "sweep"), res, shrink_calls=6, max_buckets=3, shrink_seconds=60)
    return res


def run(tier: str) -> int:
    run_ = Run(PROP, tier, "exploration", RULE)
    n = 6 if tier == "quick" else thorough(50)
    for part in run_shards(shard, 16, n=n, seed=verif_seed()):
        run_.merge(part)
    run_.assumptions = [
        "names are computed exactly as jit.compile_forms/compile_expressions compute them (same functions, no C compile)",
        "'would generate different kernels' is decided by comparing the generated sources with 40-digit hashes normalised",
    ]
    return run_.finish()


def replay(doc) -> int:
    with scratch("vf-replay-") as wd:
        o = evaluate(doc["replay"]["case"], wd)
    print(o.status, o.what)
    if o.status == "violation":
        print(f"VIOLATION property={PROP} replay=(replayed)")
        return 1
    return 0
