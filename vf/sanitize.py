"""Sanitizer drivers (DESIGN.md 3.5): generated C + a generated driver, built with clang ASan/UBSan or TSan.

The driver owns heap buffers of exactly the extents the UFCx contract implies (computed from the *form* by the
harness) and calls every kernel of a form for every valid (entity, permutation) tuple; pointers the contract allows
to be NULL are NULL for cell kernels.
"""

from __future__ import annotations

import subprocess
from pathlib import Path

from . import kernels

CT = {"float32": ("float", "float"), "float64": ("double", "double"), "complex64": ("float _Complex", "float"), "complex128": ("double _Complex", "double")}


def _arr(name, ctype, values):
    vals = ", ".join(str(v) for v in values) or "0"
    return f"static {ctype} {name}[{max(len(values), 1)}] = {{{vals}}};\n"


def form_driver(form_name, scalar_type, sizes, entity_table, nperm, threads=0, reps=1):
    """C source of a driver for one compiled form.

    sizes: {itype index: (nA, nw, nc, nx)}; entity_table: {itype index: {domain tag: [entity indices]}};
    nperm: number of valid permutation codes per side (interior facets)
    """
    T, R = CT[scalar_type]
    s = "#include <stdlib.h>\n#include <stdio.h>\n#include <string.h>\n#include <complex.h>\n#include <stdint.h>\n#include <ufcx.h>\n"
    if threads:
        s += "#include <pthread.h>\n"
    s += f"extern ufcx_form {form_name};\n"
    s += f"typedef {T} scalar_t; typedef {R} real_t;\n"
    s += """
static scalar_t* alloc_s(size_t n, double seed) { scalar_t* p = malloc(n * sizeof(scalar_t)); for (size_t i = 0; i < n; ++i) p[i] = (scalar_t)(0.3 + 0.01 * (double)((i * 7 + (size_t)seed) % 13)); return p; }
static real_t* alloc_r(size_t n, int nodes) { real_t* p = malloc(n * sizeof(real_t)); for (size_t i = 0; i < n; ++i) p[i] = (real_t)(0.1 * (double)((i * 5) % 11) + ((i % 3) == (i / 3) % 3 ? 1.0 : 0.0)); return p; }
"""
    s += f"#define KERNEL(itg) (itg)->tabulate_tensor_{scalar_type}\n"
    s += """
typedef struct { ufcx_integral* itg; size_t nA, nw, nc, nx; int ne; int ent[2]; int np; uint8_t perm[2]; int reps; scalar_t* w; scalar_t* c; real_t* x; } job_t;
static void* run_job(void* arg) {
  job_t* j = (job_t*)arg;
  scalar_t* A = alloc_s(j->nA, 1);
  int* ent = NULL; uint8_t* perm = NULL;
  if (j->ne > 0) { ent = malloc(j->ne * sizeof(int)); for (int k = 0; k < j->ne; ++k) ent[k] = j->ent[k]; }
  if (j->np > 0) { perm = malloc(j->np * sizeof(uint8_t)); for (int k = 0; k < j->np; ++k) perm[k] = j->perm[k]; }
  for (int r = 0; r < j->reps; ++r) KERNEL(j->itg)(A, j->w, j->c, j->x, ent, perm, NULL);
  free(A); free(ent); free(perm);
  return NULL;
}
"""
    s += "int main(void) {\n  long calls = 0;\n"
    s += f"  ufcx_form* form = &{form_name};\n"
    for t, (nA, nw, nc, nx) in sorted(sizes.items()):
        tags = entity_table.get(t, {})
        s += f"  for (int i = form->form_integral_offsets[{t}]; i < form->form_integral_offsets[{t + 1}]; ++i) {{\n"
        s += "    ufcx_integral* itg = form->form_integrals[i];\n"
        s += f"    scalar_t* w = alloc_s({nw}, 3); scalar_t* c = alloc_s({nc}, 5); real_t* x = alloc_r({nx}, 0);\n"
        s += f"    job_t base = {{itg, {nA}, {nw}, {nc}, {nx}, 0, {{0, 0}}, 0, {{0, 0}}, {reps}, w, c, x}};\n"
        if t == 0:
            s += _threads_or_call("base", threads)
        else:
            for tag, ents in sorted(tags.items()):
                s += f"    if (itg->domain == {tag}) {{\n"
                s += f"      static const int ents_{t}_{tag}[] = {{{', '.join(str(e) for e in ents)}}};\n"
                if t == 2:
                    s += f"      for (int a = 0; a < {len(ents)}; ++a) for (int b = 0; b < {len(ents)}; ++b) for (int p = 0; p < {nperm}; ++p) for (int q = 0; q < {nperm}; ++q) {{\n"
                    s += f"        job_t j = base; j.ne = 2; j.ent[0] = ents_{t}_{tag}[a]; j.ent[1] = ents_{t}_{tag}[b]; j.np = 2; j.perm[0] = (uint8_t)p; j.perm[1] = (uint8_t)q;\n"
                else:
                    s += f"      for (int a = 0; a < {len(ents)}; ++a) {{\n"
                    s += f"        job_t j = base; j.ne = 1; j.ent[0] = ents_{t}_{tag}[a];\n"
                s += "  " + _threads_or_call("j", threads)
                s += "      }\n    }\n"
        s += "    free(w); free(c); free(x);\n  }\n"
    s += '  printf("calls %ld\\n", calls);\n  return 0;\n}\n'
    return s


def _threads_or_call(var, threads):
    if not threads:
        return f"    run_job(&{var}); ++calls;\n"
    return (f"    {{ pthread_t th[{threads}]; for (int k = 0; k < {threads}; ++k) pthread_create(&th[k], NULL, run_job, &{var});\n"
            f"      for (int k = 0; k < {threads}; ++k) pthread_join(th[k], NULL); calls += {threads}; }}\n")


def expression_driver(expr_name, scalar_type, nA, nw, nc, nx, entities, nperm, threads=0, reps=1):
    T, R = CT[scalar_type]
    s = "#include <stdlib.h>\n#include <stdio.h>\n#include <complex.h>\n#include <stdint.h>\n#include <ufcx.h>\n"
    if threads:
        s += "#include <pthread.h>\n"
    s += f"extern ufcx_expression {expr_name};\ntypedef {T} scalar_t; typedef {R} real_t;\n"
    s += """
static scalar_t* alloc_s(size_t n, double seed) { scalar_t* p = malloc(n * sizeof(scalar_t)); for (size_t i = 0; i < n; ++i) p[i] = (scalar_t)(0.3 + 0.01 * (double)((i * 7 + (size_t)seed) % 13)); return p; }
static real_t* alloc_r(size_t n) { real_t* p = malloc(n * sizeof(real_t)); for (size_t i = 0; i < n; ++i) p[i] = (real_t)(0.1 * (double)((i * 5) % 11) + ((i % 3) == (i / 3) % 3 ? 1.0 : 0.0)); return p; }
"""
    s += f"typedef struct {{ int ne; int ent; int np; uint8_t perm; }} job_t;\nstatic scalar_t* w; static scalar_t* c; static real_t* x;\n"
    s += "static void* run_job(void* arg) {\n  job_t* j = (job_t*)arg;\n"
    s += f"  scalar_t* A = alloc_s({nA}, 1); int* ent = NULL; uint8_t* perm = NULL;\n"
    s += "  if (j->ne) { ent = malloc(sizeof(int)); ent[0] = j->ent; }\n  if (j->np) { perm = malloc(sizeof(uint8_t)); perm[0] = j->perm; }\n"
    s += f"  for (int r = 0; r < {reps}; ++r) {expr_name}.tabulate_tensor_{scalar_type}(A, w, c, x, ent, perm, NULL);\n  free(A); free(ent); free(perm); return NULL;\n}}\n"
    s += f"int main(void) {{\n  long calls = 0; w = alloc_s({nw}, 3); c = alloc_s({nc}, 5); x = alloc_r({nx});\n"
    if entities:
        s += f"  static const int ents[] = {{{', '.join(str(e) for e in entities)}}};\n"
        s += f"  for (int a = 0; a < {len(entities)}; ++a) for (int p = 0; p < {nperm}; ++p) {{ job_t j = {{1, ents[a], 1, (uint8_t)p}};\n" + _threads_or_call("j", threads) + "  }\n"
    else:
        s += "  { job_t j = {0, 0, 0, 0};\n" + _threads_or_call("j", threads) + "  }\n"
    s += '  free(w); free(c); free(x); printf("calls %ld\\n", calls); return 0;\n}\n'
    return s


def build_and_run(module_source, driver_source, workdir, name, mode="asan", timeout=300):
    """Returns (status, detail): status in {"clean", "report", "build-error", "timeout"}."""
    wd = Path(workdir)
    wd.mkdir(parents=True, exist_ok=True)
    mc, dc, exe = wd / f"{name}_m.c", wd / f"{name}_d.c", wd / f"{name}_{mode}"
    mc.write_text(module_source)
    dc.write_text(driver_source)
    if mode == "asan":
        flags = ["-fsanitize=address,undefined,bounds", "-fno-sanitize-recover=all", "-fno-omit-frame-pointer"]
        env = {"ASAN_OPTIONS": "detect_leaks=0:abort_on_error=0:allocator_may_return_null=1", "UBSAN_OPTIONS": "print_stacktrace=1:halt_on_error=1"}
    else:
        flags = ["-fsanitize=thread"]
        env = {"TSAN_OPTIONS": "halt_on_error=1:report_signal_unsafe=0"}
    if kernels.uses_posix_bessel(Path(mc).read_text()):
        flags = [*flags, "-D_DEFAULT_SOURCE"]  # known finding C19:bessel-posix-undeclared (see kernels.cc_compile)
    cmd = ["clang", "-std=c17", "-O1", "-g", "-w", *flags, f"-I{kernels.include_dir()}", str(mc), str(dc), "-lm", "-lpthread", "-o", str(exe)]
    r = subprocess.run(cmd, capture_output=True, text=True, cwd=str(wd))
    if r.returncode != 0:
        return "build-error", r.stderr[-1500:]
    import os

    try:
        r = subprocess.run([str(exe)], capture_output=True, text=True, cwd=str(wd), env=dict(os.environ, **env), timeout=timeout)
    except subprocess.TimeoutExpired:
        return "timeout", ""
    for f in (exe,):
        try:
            f.unlink()
        except OSError:
            pass
    if r.returncode != 0 or "ERROR: AddressSanitizer" in r.stderr or "runtime error" in r.stderr or "WARNING: ThreadSanitizer" in r.stderr:
        return "report", (r.stderr[:2500] or f"exit code {r.returncode}")
    return "clean", r.stdout.strip()
