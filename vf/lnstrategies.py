"""Hypothesis strategies and exhaustive enumerations for LNodes trees (C16/C17)."""

from __future__ import annotations

import itertools
import math

from hypothesis import strategies as st

from .lntree import ARITH, COMPARE

REAL_SYMS = ["a", "b", "x0", "w1", "sp_3"]
SCALAR_SYMS = ["s", "z2", "fw0"]
INT_SYMS = ["i", "j", "iq", "ic"]
ARRAYS = [("A", "SCALAR"), ("w", "SCALAR"), ("FE0_C0", "REAL"), ("coordinate_dofs", "REAL"), ("tab", "REAL")]
MATH1 = ["sqrt", "abs", "cos", "sin", "tan", "acos", "asin", "atan", "cosh", "sinh", "tanh", "exp", "ln", "erf"]
MATH2 = ["power", "atan2", "min_value", "max_value"]  # "atan2" is the name ufl_to_lnodes produces ("atan_2" is a dead table key)
MATH_COMPLEX = ["real", "imag", "conj"]  # complex scalar types only
MATH_BESSEL = ["bessel_j", "bessel_y"]  # (integer order, argument)
MATH1X = MATH1 + ["acosh", "asinh", "atanh"] + MATH_COMPLEX

_EPS = 2.0**-52


def float_values():
    nasty = [0.0, 1.0, -1.0, 0.5, -2.0, 2.0, 1.0 + 2 * _EPS, 1.0 + 3 * _EPS, 1.0 - _EPS, 0.1 + 0.2, 1e-3 + 1e-19, 1.0000000000000004,
             10.000000000000002, 100.00000000000003, 1e-310, 5e-324, 1.7976931348623157e308, 1e22, 1e23, 123456789.12345679,
             0.30000000000000004, -0.30000000000000004, 2.2250738585072014e-308, 1 / 3, -1 / 3, math.pi, -math.e]
    return st.one_of(
        st.sampled_from(nasty),
        st.floats(allow_nan=False, allow_infinity=False),
        st.floats(min_value=-10, max_value=10, allow_nan=False),
        st.integers(1, 2**53).map(lambda n: 1.0 + n * _EPS),
    )


@st.composite
def lit_float(draw, allow_complex=True):
    if allow_complex and draw(st.integers(0, 9)) == 0:
        return ["LitF", [draw(float_values()), draw(float_values())]]
    return ["LitF", draw(float_values())]


def lit_int():
    return st.one_of(st.integers(-5, 40), st.sampled_from([0, 1, -1, 2, 3, 2**31 - 1])).map(lambda n: ["LitI", n])


def sym(kinds=("REAL", "SCALAR", "INT")):
    opts = []
    if "REAL" in kinds:
        opts += [["Sym", n, "REAL"] for n in REAL_SYMS]
    if "SCALAR" in kinds:
        opts += [["Sym", n, "SCALAR"] for n in SCALAR_SYMS]
    if "INT" in kinds:
        opts += [["Sym", n, "INT"] for n in INT_SYMS]
    return st.sampled_from(opts)


@st.composite
def int_expr(draw, depth=2):
    """Integer-valued index expression."""
    if depth <= 0 or draw(st.integers(0, 2)) == 0:
        return draw(st.one_of(sym(("INT",)), st.integers(0, 7).map(lambda n: ["LitI", n])))
    k = draw(st.sampled_from(["Add", "Mul", "Sub", "MI", "Sum", "Product", "Neg"]))
    if k == "MI":
        n = draw(st.integers(0, 3))
        syms = [draw(sym(("INT",))) for _ in range(n)]
        sizes = [draw(st.integers(1, 5)) for _ in range(n)]
        return ["MI", syms, sizes]
    if k in ("Sum", "Product"):
        return [k, [draw(int_expr(depth - 1)) for _ in range(draw(st.integers(1, 3)))]]
    if k == "Neg":
        return ["Neg", draw(int_expr(depth - 1))]
    return [k, draw(int_expr(depth - 1)), draw(int_expr(depth - 1))]


@st.composite
def array_access(draw, depth=1):
    name, dt = draw(st.sampled_from(ARRAYS))
    n = draw(st.integers(1, 4))
    return ["Acc", name, dt, [draw(int_expr(depth)) for _ in range(n)]]


@st.composite
def arith(draw, depth=3, allow_complex=True):
    """Arithmetic (REAL/SCALAR valued) expression built with raw constructors."""
    if depth <= 0 or draw(st.integers(0, 3)) == 0:
        return draw(st.one_of(lit_float(allow_complex), lit_float(allow_complex), sym(("REAL", "SCALAR")), array_access(),
                              lit_int(), sym(("INT",))))
    k = draw(st.sampled_from(ARITH * 2 + ["Neg", "Neg", "Sum", "Product", "Math", "Cond", "MIop"]))
    sub = arith(depth - 1, allow_complex)
    if k in ARITH:
        return [k, draw(sub), draw(sub)]
    if k == "Neg":
        return ["Neg", draw(sub)]
    if k in ("Sum", "Product"):
        return [k, [draw(sub) for _ in range(draw(st.integers(1, 4)))]]
    if k == "Math":
        r = draw(st.integers(0, 9))
        if r < 5:
            return ["Math", draw(st.sampled_from(MATH1X)), [draw(sub)]]
        if r < 9:
            return ["Math", draw(st.sampled_from(MATH2)), [draw(sub), draw(sub)]]
        return ["Math", draw(st.sampled_from(MATH_BESSEL)), [["LitI", draw(st.integers(0, 3))], draw(sub)]]
    if k == "Cond":
        return ["Cond", draw(condition(depth - 1, allow_complex)), draw(sub), draw(sub)]
    # a MultiIndex used as an operand of arithmetic (it is an LExpr)
    n = draw(st.integers(1, 3))
    # components are symbols or compound index expressions (block_size*i+offset is what FFCx itself builds)
    comps = [draw(st.one_of(sym(("INT",)), sym(("INT",)), int_expr(1))) for _ in range(n)]
    mi = ["MI", comps, [draw(st.integers(1, 5)) for _ in range(n)]]
    op = draw(st.sampled_from(["Mul", "Sub", "Add", "Neg", "Div"]))
    if op == "Neg":
        return ["Neg", mi]
    other = draw(st.one_of(sym(("INT",)), lit_int(), sym(("REAL",))))
    return [op, other, mi] if draw(st.booleans()) else [op, mi, other]


@st.composite
def condition(draw, depth=2, allow_complex=True):
    if depth <= 0 or draw(st.integers(0, 2)) == 0:
        return [draw(st.sampled_from(COMPARE)), draw(arith(max(depth - 1, 0), allow_complex)), draw(arith(max(depth - 1, 0), allow_complex))]
    k = draw(st.sampled_from(["And", "Or", "Not"]))
    if k == "Not":
        return ["Not", draw(condition(depth - 1, allow_complex))]
    return [k, draw(condition(depth - 1, allow_complex)), draw(condition(depth - 1, allow_complex))]


def expression(depth=4):
    return st.one_of(arith(depth), arith(depth), condition(depth - 1))


# ---------------------------------------------------------------------------------------
# statements
# ---------------------------------------------------------------------------------------


@st.composite
def lhs(draw):
    if draw(st.booleans()):
        return draw(sym(("REAL", "SCALAR")))
    return draw(array_access())


@st.composite
def array_values(draw, sizes, dt):
    n = 1
    for s in sizes:
        n *= s

    def nest(flat, shape):
        if len(shape) == 1:
            return flat
        step = len(flat) // shape[0]
        return [nest(flat[i * step : (i + 1) * step], shape[1:]) for i in range(shape[0])]

    if dt == "INT":
        flat = [draw(st.integers(-3, 9)) for _ in range(n)]
    else:
        flat = [draw(float_values()) for _ in range(n)]
    return nest(flat, list(sizes))


@st.composite
def statement(draw, depth=2):
    kinds = ["Assign", "AssignAdd", "VarDecl", "ArrDecl", "Comment"]
    if depth > 0:
        kinds += ["For", "For", "Section", "List"]
    k = draw(st.sampled_from(kinds))
    if k in ("Assign", "AssignAdd"):
        return [k, draw(lhs()), draw(arith(2))]
    if k == "VarDecl":
        s = draw(sym(("REAL", "SCALAR", "INT")))
        val = draw(int_expr(1)) if s[2] == "INT" else draw(arith(2))
        return ["VarDecl", s, val]
    if k == "ArrDecl":
        return draw(array_decl())
    if k == "Comment":
        return ["Comment", draw(st.sampled_from(["Quadrature rules", "a * b + c", "FE* dimensions: [permutation][entities][points][dofs]", "x"]))]
    if k == "For":
        idx = draw(sym(("INT",)))
        begin = draw(st.one_of(st.integers(0, 3).map(lambda n: ["LitI", n]), sym(("INT",))))
        end = draw(st.one_of(st.integers(0, 9).map(lambda n: ["LitI", n]), sym(("INT",)), int_expr(1)))
        body = [draw(statement(depth - 1)) for _ in range(draw(st.integers(0, 2)))]
        body.append([draw(st.sampled_from(["Assign", "AssignAdd"])), draw(lhs()), draw(arith(1))])
        return ["For", idx, begin, end, body]
    if k == "Section":
        decls = [draw(st.one_of(array_decl(), var_decl())) for _ in range(draw(st.integers(0, 2)))]
        stmts = [draw(statement(depth - 1)) for _ in range(draw(st.integers(0, 3)))]
        name = draw(st.sampled_from(["Jacobian", "Coefficient", "Tensor Computation", "Intermediates"]))
        ins = [[n, "REAL"] for n in draw(st.lists(st.sampled_from(REAL_SYMS), max_size=2, unique=True))]
        outs = [[n, "SCALAR"] for n in draw(st.lists(st.sampled_from(SCALAR_SYMS), max_size=2, unique=True))]
        return ["Section", name, stmts, decls, ins, outs, []]
    return ["List", [draw(statement(depth - 1)) for _ in range(draw(st.integers(0, 3)))]]


@st.composite
def var_decl(draw):
    s = draw(sym(("REAL", "SCALAR", "INT")))
    val = draw(int_expr(1)) if s[2] == "INT" else draw(arith(2))
    return ["VarDecl", s, val]


@st.composite
def array_decl(draw):
    name = draw(st.sampled_from(["FE3_C0_D01_Q083", "weights_083", "temp_0", "tab"]))
    dt = draw(st.sampled_from(["REAL", "REAL", "SCALAR", "INT"]))
    sizes = [draw(st.integers(1, 3)) for _ in range(draw(st.integers(1, 4)))]
    mode = draw(st.sampled_from(["values", "values", "none", "zero"]))
    if mode == "none":
        return ["ArrDecl", name, dt, sizes, None, False]
    if mode == "zero":
        return ["ArrDecl", name, dt, sizes, [0], False]
    return ["ArrDecl", name, dt, sizes, draw(array_values(sizes, dt)), draw(st.booleans())]


def statements(depth=2):
    return st.lists(statement(depth), min_size=1, max_size=4)


# ---------------------------------------------------------------------------------------
# exhaustive depth-2 enumeration: every (parent, child, operand position) triple
# ---------------------------------------------------------------------------------------

A_ = ["Sym", "a", "REAL"]
B_ = ["Sym", "b", "REAL"]
S_ = ["Sym", "s", "SCALAR"]
I_ = ["Sym", "i", "INT"]
J_ = ["Sym", "j", "INT"]
C1 = ["LT", A_, B_]
C2 = ["GE", S_, A_]


def arith_children():
    """Representative arithmetic trees of every child kind (depth 1)."""
    out = {
        "LitF+": ["LitF", 2.5],
        "LitF-": ["LitF", -2.5],
        "LitF0-": ["LitF", -0.0],
        "LitFc": ["LitF", [1.5, -2.0]],
        "LitFc-": ["LitF", [-1.5, 2.0]],
        "LitI+": ["LitI", 3],
        "LitI-": ["LitI", -3],
        "SymR": A_,
        "SymS": S_,
        "SymI": I_,
        "Acc1": ["Acc", "w", "SCALAR", [I_]],
        "Acc2": ["Acc", "tab", "REAL", [I_, ["Add", J_, ["LitI", 1]]]],
        "AccMI": ["Acc", "A", "SCALAR", [["MI", [I_, J_], [3, 4]]]],
        "MI1": ["MI", [I_], [3]],
        "MI2": ["MI", [I_, J_], [3, 4]],
        "MI1c": ["MI", [["Add", ["Mul", ["LitI", 2], I_], ["LitI", 1]]], [7]],
        "MI2c": ["MI", [["Add", I_, ["LitI", 1]], ["Sub", J_, ["LitI", 1]]], [3, 4]],
        "Neg": ["Neg", A_],
        "NegLit": ["Neg", ["LitF", 2.0]],
        "Add": ["Add", A_, B_],
        "Sub": ["Sub", A_, B_],
        "Mul": ["Mul", A_, B_],
        "Div": ["Div", A_, B_],
        "Sum2": ["Sum", [A_, B_]],
        "Sum3": ["Sum", [A_, B_, S_]],
        "Sum1": ["Sum", [A_]],
        "Product2": ["Product", [A_, B_]],
        "Product3": ["Product", [A_, B_, S_]],
        "Product1": ["Product", [B_]],
        "Math1": ["Math", "sin", [A_]],
        "Math2": ["Math", "power", [A_, B_]],
        "Cond": ["Cond", C1, A_, B_],
    }
    return out


def cond_children():
    out = {k: [k, A_, B_] for k in COMPARE}
    out["And"] = ["And", C1, C2]
    out["Or"] = ["Or", C1, C2]
    out["Not"] = ["Not", C1]
    return out


def depth2_trees():
    """All well-typed (parent, child, position) combinations at depth 2 -> list of (label, tree)."""
    ac = arith_children()
    cc = cond_children()
    out = []
    other = ["Sym", "x0", "REAL"]
    for cn, c in ac.items():
        out.append((f"Neg/{cn}/0", ["Neg", c]))
        for p in ARITH + COMPARE:
            out.append((f"{p}/{cn}/0", [p, c, other]))
            out.append((f"{p}/{cn}/1", [p, other, c]))
        for p in ("Sum", "Product"):
            out.append((f"{p}/{cn}/0", [p, [c, other]]))
            out.append((f"{p}/{cn}/1", [p, [other, c]]))
            out.append((f"{p}/{cn}/2", [p, [other, B_, c]]))
            out.append((f"{p}/{cn}/only", [p, [c]]))
        out.append((f"Math1/{cn}/0", ["Math", "cos", [c]]))
        out.append((f"Math2/{cn}/0", ["Math", "power", [c, other]]))
        out.append((f"Math2/{cn}/1", ["Math", "max_value", [other, c]]))
        out.append((f"Cond/{cn}/1", ["Cond", C1, c, other]))
        out.append((f"Cond/{cn}/2", ["Cond", C1, other, c]))
    # integer-valued children as array indices
    for cn in ("LitI+", "SymI", "MI1", "MI2", "Add", "Mul", "Sum2", "Product2", "Neg", "Sub"):
        c = ac[cn]
        if cn in ("Add", "Mul", "Sub"):
            c = [cn, I_, J_]
        elif cn in ("Sum2", "Product2"):
            c = [cn[:-1], [I_, J_]]
        elif cn == "Neg":
            c = ["Neg", I_]
        out.append((f"Acc/{cn}/0", ["Acc", "tab", "REAL", [c, J_]]))
        out.append((f"Acc/{cn}/1", ["Acc", "tab", "REAL", [J_, c]]))
    for cn, c in cc.items():
        out.append((f"Not/{cn}/0", ["Not", c]))
        for p in ("And", "Or"):
            out.append((f"{p}/{cn}/0", [p, c, C2]))
            out.append((f"{p}/{cn}/1", [p, C2, c]))
        out.append((f"Cond/{cn}/0", ["Cond", c, A_, B_]))
    return out


def operand_kinds():
    """Operand kinds for the exhaustive C17 operator-overload enumeration: name -> (builder description)."""
    return {
        "F0": ["LitF", 0.0],
        "F-0": ["LitF", -0.0],
        "F1": ["LitF", 1.0],
        "F-1": ["LitF", -1.0],
        "Fpos": ["LitF", 2.5],
        "Fneg": ["LitF", -2.5],
        "Fc": ["LitF", [1.5, -0.5]],
        "I0": ["LitI", 0],
        "I1": ["LitI", 1],
        "I-1": ["LitI", -1],
        "Ipos": ["LitI", 3],
        "Ineg": ["LitI", -4],
        "SymR": A_,
        "SymS": S_,
        "SymI": I_,
        "Neg": ["Neg", B_],
        "NegLit": ["Neg", ["LitF", 2.0]],
        "Sum": ["Sum", [A_, B_]],
        "Product": ["Product", [A_, B_]],
        "Add": ["Add", A_, B_],
        "Sub": ["Sub", A_, B_],
        "Mul": ["Mul", A_, B_],
        "Div": ["Div", A_, B_],
        "Acc": ["Acc", "w", "SCALAR", [I_]],
        "Math": ["Math", "sin", [A_]],
        "Cond": ["Cond", C1, A_, B_],
    }


def all_pairs(keys):
    return list(itertools.product(keys, keys))
