from .cli import main

raise SystemExit(main())
