"""Compile UFL objects with FFCx and call the generated kernels (DESIGN.md section 3.4).

Two routes:
  * ``compile_module``: ffcx.compiler.compile_ufl_objects -> cc -> dlopen (cffi ABI mode).  Fast and
    gives the harness control over compiler/flags; used by most checks.
  * ``jit_forms`` / ``jit_expressions``: ffcx.codegeneration.jit (the user-facing JIT), always with
    an explicit cache_dir inside the scratch directory.

Kernels are called with guard-zone buffers: every array is a window into a larger allocation whose
margins are NaN (reads poison the result) and checked for modification after the call.
"""

from __future__ import annotations

import os
import re
import subprocess
from pathlib import Path

import cffi
import numpy as np

GUARD = 16  # elements of margin on each side

_SCALARS = {
    "float32": ("float", "float32", "float"),
    "float64": ("double", "float64", "double"),
    "complex64": ("float _Complex", "float32", "float"),
    "complex128": ("double _Complex", "float64", "double"),
}


def real_dtype(scalar_type: str):
    return np.dtype(_SCALARS[str(np.dtype(scalar_type))][1])


class Timeout(BaseException):
    """A symbolic preprocessing / code generation step exceeded its wall-clock budget (case is inconclusive)."""


import contextlib  # noqa: E402
import signal  # noqa: E402
import threading  # noqa: E402


@contextlib.contextmanager
def time_limit(seconds):
    """Raise Timeout in the main thread after `seconds` (no-op elsewhere)."""
    if threading.current_thread() is not threading.main_thread() or seconds <= 0:
        yield
        return

    def handler(signum, frame):
        raise Timeout(f"exceeded {seconds} s")

    old = signal.signal(signal.SIGALRM, handler)
    signal.setitimer(signal.ITIMER_REAL, seconds)
    # memory budget for the symbolic phase: UFL's geometry lowering can allocate tens of GB on pathological expressions (seen:
    # 60 GB, OOM-killed worker).  The soft address-space limit is raised by VF_MEM_CAP_GB over the current size and restored
    # afterwards (sanitizer-built children need an unlimited address space); exhaustion surfaces as MemoryError -> OutOfBudget.
    lim = None
    try:
        import resource

        cap = float(os.environ.get("VF_MEM_CAP_GB", "4"))
        with open("/proc/self/statm") as fh:
            vm = int(fh.read().split()[0]) * os.sysconf("SC_PAGE_SIZE")
        lim = resource.getrlimit(resource.RLIMIT_AS)
        soft = int(vm + cap * 2**30)
        if lim[1] == resource.RLIM_INFINITY or soft <= lim[1]:
            resource.setrlimit(resource.RLIMIT_AS, (soft, lim[1]))
        else:
            lim = None
    except (OSError, ValueError, ImportError):
        lim = None
    try:
        yield
    except MemoryError as e:
        import gc

        gc.collect()
        raise Timeout(f"exceeded the memory budget of the symbolic phase ({os.environ.get('VF_MEM_CAP_GB', '4')} GB)") from e
    finally:
        signal.setitimer(signal.ITIMER_REAL, 0)
        signal.signal(signal.SIGALRM, old)
        if lim is not None:
            import resource

            resource.setrlimit(resource.RLIMIT_AS, lim)


class CompileError(Exception):
    def __init__(self, msg, stderr="", code=""):
        super().__init__(msg)
        self.stderr = stderr
        self.code = code


class Rejected(Exception):
    """FFCx raised a Python exception before any compiler was spawned."""

    def __init__(self, exc):
        super().__init__(f"{type(exc).__name__}: {exc}")
        self.exc = exc


def ffcx_options(opts: dict | None = None) -> dict:
    import ffcx.options

    return ffcx.options.get_options(dict(opts or {}))


def generate_code(objects, options: dict | None = None, prefix: str = "vf", object_names=None):
    """Return (header_text, source_text, names) from ffcx.compiler.compile_ufl_objects."""
    import ufl

    import ffcx.compiler
    import ffcx.naming

    p = ffcx_options(options)
    # time and memory budget of the symbolic phase (raises Timeout): every caller gets it
    with time_limit(float(os.environ.get("VF_CODEGEN_TIMEOUT", "150"))):
        code, _suffixes = ffcx.compiler.compile_ufl_objects(
            list(objects), options=p, namespace=prefix, object_names=object_names
        )
    names = []
    i_form = 0
    for o in objects:
        if isinstance(o, ufl.Form):
            names.append(("form", ffcx.naming.form_name(o, i_form, prefix)))
            i_form += 1
        elif isinstance(o, tuple):
            names.append(("expression", ffcx.naming.expression_name(o, prefix)))
        else:
            names.append(("element", None))
    return code[0], (code[1] if len(code) > 1 else ""), names


def _decl(names):
    import ffcx.codegeneration.jit as J

    decl = J.UFC_HEADER_DECL.format("") + J.UFC_INTEGRAL_DECL + J.UFC_FORM_DECL + J.UFC_EXPRESSION_DECL
    for kind, n in names:
        if kind == "form":
            decl += f"extern ufcx_form {n};\n"
        elif kind == "expression":
            decl += f"extern ufcx_expression {n};\n"
    return decl


def include_dir() -> str:
    import ffcx.codegeneration

    return ffcx.codegeneration.get_include_path()


_POSIX_BESSEL = re.compile(r"\b[jy]n\(")


def uses_posix_bessel(source: str) -> bool:
    return bool(_POSIX_BESSEL.search(source))


def cc_compile(source: str, workdir: Path, name: str, cc="gcc", cflags=("-O1",), shared=True, strict_c17=False) -> Path:
    workdir = Path(workdir)
    workdir.mkdir(parents=True, exist_ok=True)
    cfile = workdir / f"{name}.c"
    cfile.write_text(source)
    out = workdir / (f"{name}.so" if shared else f"{name}.o")
    # A call of an undeclared function is not valid C17 (gcc 12 only warns and then assumes an int result, which silently
    # corrupts values), so it is made an error here.  Known finding C19:bessel-posix-undeclared: generated code calls the
    # POSIX functions jn/yn, which ISO <math.h> does not declare under -std=c17; such sources get _DEFAULT_SOURCE (counted by
    # the checks as class "posix-bessel") so that the search continues behind that finding; `strict_c17` is the probe.
    cmd = [cc, "-std=c17", "-Wall", "-Werror=implicit-function-declaration", *cflags, "-fPIC", f"-I{include_dir()}"]
    if uses_posix_bessel(source) and not strict_c17:
        cmd.append("-D_DEFAULT_SOURCE")
    cmd += ["-shared", str(cfile), "-o", str(out), "-lm"] if shared else ["-c", str(cfile), "-o", str(out)]
    r = subprocess.run(cmd, capture_output=True, text=True, cwd=str(workdir))
    if r.returncode != 0:
        raise CompileError(f"{cc} failed", stderr=r.stderr[-6000:], code=source)
    return out


class Module:
    def __init__(self, ffi, lib, names, source, header, objects):
        self.ffi = ffi
        self.lib = lib
        self.names = names
        self.source = source
        self.header = header
        self.objects = [getattr(lib, n) if n else None for _, n in names]


def compile_module(objects, options=None, workdir=None, name="m", cc="gcc", cflags=("-O1",), prefix="vf") -> Module:
    """Generate + compile + load.  Raises Rejected (Python exception in FFCx) or CompileError."""
    try:
        header, source, names = generate_code(objects, options, prefix=prefix)
    except (KeyboardInterrupt, Timeout):
        raise
    except BaseException as e:  # noqa: BLE001 - classification is the point (UFL's ArityMismatch derives from BaseException)
        if type(e).__name__ in ("SystemExit", "GeneratorExit") or type(e).__module__.startswith("hypothesis"):
            raise
        raise Rejected(e) from e
    so = cc_compile(source, workdir, name, cc=cc, cflags=cflags)
    ffi = cffi.FFI()
    ffi.cdef(_decl(names))
    lib = ffi.dlopen(str(so))
    return Module(ffi, lib, names, source, header, objects)


# ---------------------------------------------------------------------------------------
# calling kernels
# ---------------------------------------------------------------------------------------


class Guarded:
    """An array window inside a larger buffer with poisoned margins."""

    def __init__(self, data: np.ndarray, poison):
        data = np.ascontiguousarray(data).ravel()
        n = data.shape[0]
        self.n = n
        self.buf = np.empty(n + 2 * GUARD, dtype=data.dtype)
        self.buf[:] = poison
        self.buf[GUARD : GUARD + n] = data
        self.view = self.buf[GUARD : GUARD + n]
        self.before = self.buf.tobytes()

    def ptr(self, ffi, ctype):
        return ffi.cast(f"{ctype} *", self.view.ctypes.data)

    def margins_intact(self):
        b = self.buf.tobytes()
        isz = self.buf.dtype.itemsize
        k = GUARD * isz
        return b[:k] == self.before[:k] and b[len(b) - k :] == self.before[len(b) - k :]

    def unchanged(self):
        return self.buf.tobytes() == self.before


class CallResult:
    def __init__(self, A, problems):
        self.A = A
        self.problems = problems  # list of strings: input modified, margin overwritten


def call_kernel(
    ffi,
    integral_or_expr,
    scalar_type: str,
    A_shape,
    w,
    c,
    coords,
    entity=None,
    perm=None,
    A0=None,
    custom_data=None,
):
    """Call tabulate_tensor_<scalar_type>.  `entity`/`perm` None -> NULL pointer."""
    st = str(np.dtype(scalar_type))
    ctype, rname, rctype = _SCALARS[st]
    sdt = np.dtype(st)
    rdt = np.dtype(rname)
    nA = int(np.prod(A_shape)) if len(A_shape) else 1
    A_init = np.zeros(nA, dtype=sdt) if A0 is None else np.asarray(A0, dtype=sdt).ravel().copy()
    nanS = np.nan if sdt.kind == "f" else complex(np.nan, np.nan)
    gA = Guarded(A_init, nanS)
    gw = Guarded(np.asarray(w, dtype=sdt), nanS)
    gc = Guarded(np.asarray(c, dtype=sdt), nanS)
    gx = Guarded(np.asarray(coords, dtype=rdt), np.nan)
    ge = None if entity is None else Guarded(np.asarray(entity, dtype=np.intc), -(2**30))
    gp = None if perm is None else Guarded(np.asarray(perm, dtype=np.uint8), 255)
    kern = getattr(integral_or_expr, f"tabulate_tensor_{st}")
    if kern == ffi.NULL:
        raise RuntimeError(f"tabulate_tensor_{st} is NULL")
    kern(
        gA.ptr(ffi, ctype),
        gw.ptr(ffi, ctype),
        gc.ptr(ffi, ctype),
        gx.ptr(ffi, rctype),
        ffi.NULL if ge is None else ge.ptr(ffi, "int"),
        ffi.NULL if gp is None else gp.ptr(ffi, "uint8_t"),
        ffi.NULL if custom_data is None else custom_data,
    )
    problems = []
    if not gA.margins_intact():
        problems.append("write outside the extent of A")
    for nm, g in (("w", gw), ("c", gc), ("coordinate_dofs", gx), ("entity_local_index", ge), ("quadrature_permutation", gp)):
        if g is not None and not g.unchanged():
            problems.append(f"input {nm} (or its margin) was modified")
    return CallResult(gA.view.copy().reshape(A_shape), problems)


def read_form_descriptor(ffi, form):
    """Read a compiled ufcx_form struct into plain Python."""
    d = {
        "rank": int(form.rank),
        "num_coefficients": int(form.num_coefficients),
        "num_constants": int(form.num_constants),
        "signature": ffi.string(form.signature).decode() if form.signature != ffi.NULL else None,
    }
    d["original_coefficient_positions"] = [int(form.original_coefficient_positions[i]) for i in range(d["num_coefficients"])]
    d["coefficient_names"] = [ffi.string(form.coefficient_name_map[i]).decode() for i in range(d["num_coefficients"])]
    d["constant_names"] = [ffi.string(form.constant_name_map[i]).decode() for i in range(d["num_constants"])]
    d["constant_ranks"] = [int(form.constant_ranks[i]) for i in range(d["num_constants"])]
    d["constant_shapes"] = [
        [int(form.constant_shapes[i][j]) for j in range(d["constant_ranks"][i])] for i in range(d["num_constants"])
    ]
    offs = [int(form.form_integral_offsets[i]) for i in range(6)]
    d["offsets"] = offs
    n = offs[5]
    d["ids"] = [int(form.form_integral_ids[i]) for i in range(max(n, 0))]
    d["n_hashes"] = d["rank"] + d["num_coefficients"]
    d["finite_element_hashes"] = [int(form.finite_element_hashes[i]) for i in range(d["n_hashes"])]
    integrals = []
    for i in range(max(n, 0)):
        itg = form.form_integrals[i]
        integrals.append(
            {
                "enabled_coefficients": [bool(itg.enabled_coefficients[k]) for k in range(d["num_coefficients"])],
                "needs_facet_permutations": bool(itg.needs_facet_permutations),
                "coordinate_element_hash": int(itg.coordinate_element_hash),
                "domain": int(itg.domain),
            }
        )
    d["integrals"] = integrals
    return d


def read_expression_descriptor(ffi, e):
    d = {k: int(getattr(e, k)) for k in ("num_coefficients", "num_constants", "num_points", "entity_dimension", "num_components", "rank")}
    d["coordinate_element_hash"] = int(e.coordinate_element_hash)
    d["original_coefficient_positions"] = [int(e.original_coefficient_positions[i]) for i in range(d["num_coefficients"])]
    d["coefficient_names"] = [ffi.string(e.coefficient_names[i]).decode() for i in range(d["num_coefficients"])]
    d["constant_names"] = [ffi.string(e.constant_names[i]).decode() for i in range(d["num_constants"])]
    n = d["num_points"] * d["entity_dimension"]
    d["points"] = [float(e.points[i]) for i in range(n)]
    d["value_shape"] = [int(e.value_shape[i]) for i in range(d["num_components"])]
    return d


ITYPES = ["cell", "exterior_facet", "interior_facet", "vertex", "ridge"]


def integrals_of(desc, itype, sid):
    """Indices into form_integrals registered for (type, id)."""
    t = ITYPES.index(itype)
    lo, hi = desc["offsets"][t], desc["offsets"][t + 1]
    return [i for i in range(lo, hi) if desc["ids"][i] == sid]


def jit_forms(forms, options=None, cache_dir=None, cflags=("-O1",), **kw):
    import ffcx.codegeneration.jit as J

    assert cache_dir is not None
    try:
        return J.compile_forms(list(forms), options=dict(options or {}), cache_dir=Path(cache_dir),
                               cffi_extra_compile_args=list(cflags), **kw)
    except (Timeout, KeyboardInterrupt, SystemExit, Exception):
        raise
    except BaseException as e:  # UFL's own errors (ArityMismatch, ...) derive from BaseException: a rejection like any other
        raise Rejected(e) from e


def jit_expressions(exprs, options=None, cache_dir=None, cflags=("-O1",), **kw):
    import ffcx.codegeneration.jit as J

    assert cache_dir is not None
    try:
        return J.compile_expressions(list(exprs), options=dict(options or {}), cache_dir=Path(cache_dir),
                                     cffi_extra_compile_args=list(cflags), **kw)
    except (Timeout, KeyboardInterrupt, SystemExit, Exception):
        raise
    except BaseException as e:
        raise Rejected(e) from e
