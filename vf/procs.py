"""Child-process helpers (DESIGN.md 3.8)."""

from __future__ import annotations

import json
import os
import subprocess
import sys
from pathlib import Path

from .common import REPO, VERIF


def child_env(hashseed=0, extra=None, cwd=None):
    env = dict(os.environ)
    env["PYTHONHASHSEED"] = str(hashseed)
    pp = [str(VERIF)]
    if os.environ.get("VF_REPO"):
        pp.insert(0, os.environ["VF_REPO"])
    if env.get("PYTHONPATH"):
        pp.append(env["PYTHONPATH"])
    env["PYTHONPATH"] = os.pathsep.join(pp)
    for v in ("OMP_NUM_THREADS", "OPENBLAS_NUM_THREADS"):
        env[v] = "1"
    if extra:
        env.update(extra)
    return env


def run_job(module, job, workdir, tag, hashseed=0, timeout=600, extra_env=None):
    """Run `python -m <module> job.json out.json` in a fresh interpreter; returns (out dict | None, stderr tail)."""
    workdir = Path(workdir)
    workdir.mkdir(parents=True, exist_ok=True)
    jf = workdir / f"{tag}.job.json"
    of = workdir / f"{tag}.out.json"
    jf.write_text(json.dumps(job))
    if of.exists():
        of.unlink()
    r = subprocess.run([sys.executable, "-m", module, str(jf), str(of)], cwd=str(workdir), env=child_env(hashseed, extra_env),
                       capture_output=True, text=True, timeout=timeout)
    err = "\n".join(l for l in r.stderr.split("\n") if "conda" not in l)[-1500:]
    if not of.exists():
        return None, f"exit {r.returncode}: {err}"
    return json.loads(of.read_text()), err
