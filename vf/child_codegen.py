"""Child process for C12/C13: execute a generated history, then generate code / compute JIT names.

Usage: python -m vf.child_codegen job.json out.json
job = {"mode": "codegen"|"names", "family": "first"|"after", "steps": [...], "target": [spec, ...] , "options": {...},
       "namespace": "ns", "jit": {...}}
Steps: ["objects", n]  create n unrelated meshes/spaces/coefficients/constants
       ["compile", spec, options]  compile another spec in this process first
       ["options", {...}]  call ffcx.options.get_options with other values
"""

import json
import sys


def main():
    job = json.loads(open(sys.argv[1]).read())
    try:  # UFL's geometry lowering can allocate tens of GB on pathological expressions: fail with MemoryError instead
        import resource

        resource.setrlimit(resource.RLIMIT_AS, (8 * 2**30, resource.RLIM_INFINITY))
    except (ImportError, OSError, ValueError):
        pass
    import basix.ufl
    import numpy as np
    import ufl

    import ffcx.compiler
    import ffcx.options
    from vf import specs
    from vf.strategies import strip_meta

    def build_all(speclist):
        objs = []
        for s in speclist:
            b = specs.build(strip_meta(s))
            objs.append(b.obj)
        return objs

    out = {}
    if job.get("mode") == "names-sweep":
        # several requests in one process: [{"targets": [...], "options": {...}, "jit": {...}}, ...] -> names and source digests
        import hashlib
        import re

        import ffcx.codegeneration.jit as J
        import ffcx.naming

        res = []
        for req in job["requests"]:
            r = {}
            try:
                objs = build_all(req["targets"])
                o = ffcx.options.get_options(dict(req.get("options") or {}))
                jit = req.get("jit") or {}
                sig = J._compute_option_signature(o) + J._compilation_signature(list(jit.get("cflags", [])), bool(jit.get("debug", False)))
                if isinstance(objs[0], tuple):
                    module_name = "libffcx_expressions_" + ffcx.naming.compute_signature(objs, sig)
                    names = [ffcx.naming.expression_name(e, module_name) for e in objs]
                else:
                    module_name = "libffcx_forms_" + ffcx.naming.compute_signature(objs, sig)
                    names = [ffcx.naming.form_name(f, i, module_name) for i, f in enumerate(objs)]
                code, _ = ffcx.compiler.compile_ufl_objects(objs, options=o, namespace=module_name)
                norm = [re.sub(r"[0-9a-f]{40}", "H", c) for c in code]
                r = {"module_name": module_name, "object_names": names, "source_digest": hashlib.sha1("\0".join(norm).encode()).hexdigest()}
            except BaseException as e:  # noqa: BLE001 - UFL's ArityMismatch derives from BaseException
                r = {"error": f"{type(e).__name__}: {e}"[:300]}
            res.append(r)
        out["results"] = res
        open(sys.argv[2], "w").write(json.dumps(out))
        return
    target_objs = None
    # the options object of the target compilation exists from the start: "compile-shared" steps pass the very same object to an
    # earlier compilation (an API caller reusing one options dictionary)
    shared_opts = ffcx.options.get_options(dict(job.get("options") or {}))
    if job.get("family", "first") == "first":
        target_objs = build_all(job["target"])
    for step in job.get("steps", []):
        if step[0] == "objects":
            for i in range(int(step[1])):
                m = ufl.Mesh(basix.ufl.element("Lagrange", "triangle", 1, shape=(2,)))
                V = ufl.FunctionSpace(m, basix.ufl.element("Lagrange", "triangle", 1 + i % 2))
                ufl.Coefficient(V), ufl.Constant(m), ufl.TestFunction(V), ufl.TrialFunction(V)
        elif step[0] == "compile":
            o = build_all([step[1]])
            try:
                ffcx.compiler.compile_ufl_objects(o, options=ffcx.options.get_options(dict(step[2] or {})), namespace="other")
            except BaseException as e:  # noqa: BLE001 - a failed earlier compilation is also a history (UFL raises BaseException subclasses)
                if isinstance(e, (KeyboardInterrupt, SystemExit)):
                    raise
                out.setdefault("step_errors", []).append(f"{type(e).__name__}: {e}"[:200])
        elif step[0] == "compile-shared":
            o = build_all([step[1]])
            try:
                ffcx.compiler.compile_ufl_objects(o, options=shared_opts, namespace="other")
            except BaseException as e:  # noqa: BLE001
                if isinstance(e, (KeyboardInterrupt, SystemExit)):
                    raise
                out.setdefault("step_errors", []).append(f"{type(e).__name__}: {e}"[:200])
        elif step[0] == "compile-target":
            # the very same UFL objects compiled earlier with other options (state cached on the objects themselves)
            if target_objs is None:
                target_objs = build_all(job["target"])
            try:
                ffcx.compiler.compile_ufl_objects(target_objs, options=ffcx.options.get_options(dict(step[1] or {})), namespace="earlier")
            except BaseException as e:  # noqa: BLE001
                if isinstance(e, (KeyboardInterrupt, SystemExit)):
                    raise
                out.setdefault("step_errors", []).append(f"{type(e).__name__}: {e}"[:200])
        elif step[0] == "options":
            ffcx.options.get_options(dict(step[1]))
    if target_objs is None:
        target_objs = build_all(job["target"])
    opts = shared_opts if any(st_[0] == "compile-shared" for st_ in job.get("steps", [])) else ffcx.options.get_options(dict(job.get("options") or {}))
    if job.get("mode", "codegen") == "codegen":
        try:
            code, suffixes = ffcx.compiler.compile_ufl_objects(target_objs, options=opts, namespace=job.get("namespace", "ns"))
            out["code"] = list(code)
        except BaseException as e:  # noqa: BLE001 - UFL raises BaseException subclasses (ArityMismatch, ComplexComparisonError)
            if isinstance(e, (KeyboardInterrupt, SystemExit)):
                raise
            out["error"] = f"{type(e).__name__}: {e}"[:300]
    else:  # names: what the JIT would call the module and its objects, without compiling
        import ffcx.codegeneration.jit as J
        import ffcx.naming

        jit = job.get("jit") or {}
        sig = J._compute_option_signature(opts) + J._compilation_signature(list(jit.get("cflags", [])), bool(jit.get("debug", False)))
        is_expr = isinstance(target_objs[0], tuple)
        try:
            if is_expr:
                module_name = "libffcx_expressions_" + ffcx.naming.compute_signature(target_objs, sig)
                names = [ffcx.naming.expression_name(e, module_name) for e in target_objs]
            else:
                module_name = "libffcx_forms_" + ffcx.naming.compute_signature(target_objs, sig)
                names = [ffcx.naming.form_name(f, i, module_name) for i, f in enumerate(target_objs)]
            out["module_name"] = module_name
            out["object_names"] = names
            if job.get("with_code"):
                code, _ = ffcx.compiler.compile_ufl_objects(target_objs, options=opts, namespace=module_name)
                out["code"] = list(code)
        except BaseException as e:  # noqa: BLE001 - UFL raises BaseException subclasses (ArityMismatch, ComplexComparisonError)
            if isinstance(e, (KeyboardInterrupt, SystemExit)):
                raise
            out["error"] = f"{type(e).__name__}: {e}"[:300]
    open(sys.argv[2], "w").write(json.dumps(out))


if __name__ == "__main__":
    main()
