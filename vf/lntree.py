"""A JSON tree language for FFCx's code-generation AST (LNodes): build / unbuild / evaluate / execute.

  build(tree)    JSON tree -> ffcx.codegeneration.lnodes objects using the *raw* constructors
  unbuild(node)  LNodes object -> JSON tree (used on ASTs produced by FFCx itself)
  eval_expr      value of an expression tree in an environment (C semantics for the operators)
  Machine        executes statement trees over numpy buffers with a bounds check on every array access

Expression trees
  ["LitF", v] (v float or [re, im])   ["LitI", n]   ["Sym", name, dtype]   ["Acc", name, dtype, [idx..]]
  ["MI", [symbols], [sizes]]   ["Neg", a]   ["Not", c]   [binop, a, b]   ["Sum"|"Product", [args]]
  ["Math", fname, [args]]   ["Cond", c, t, f]
Statement trees
  ["Assign"|"AssignAdd", lhs, rhs]   ["VarDecl", sym, value|None]   ["ArrDecl", name, dtype, sizes, values, const]
  ["For", index, begin, end, [body]]   ["Section", name, [stmts], [decls], [inputs], [outputs], [annotations]]
  ["Comment", text]   ["List", [stmts]]
"""

from __future__ import annotations

import cmath
import math

import numpy as np

BINOPS = ["Add", "Sub", "Mul", "Div", "EQ", "NE", "LT", "GT", "LE", "GE", "And", "Or"]
ARITH = ["Add", "Sub", "Mul", "Div"]
COMPARE = ["EQ", "NE", "LT", "GT", "LE", "GE"]


def L():
    import ffcx.codegeneration.lnodes as _L

    return _L


def _dtype(name):
    return getattr(L().DataType, name)


def _lit_value(v):
    if isinstance(v, (list, tuple)):
        return complex(v[0], v[1])
    return float(v)


def build(t):
    """JSON tree -> LNodes, raw constructors only (no simplifying overloads)."""
    Ln = L()
    k = t[0]
    if k == "LitF":
        return Ln.LiteralFloat(_lit_value(t[1]))
    if k == "LitI":
        return Ln.LiteralInt(int(t[1]))
    if k == "Sym":
        return Ln.Symbol(t[1], _dtype(t[2]))
    if k == "Acc":
        return Ln.ArrayAccess(Ln.Symbol(t[1], _dtype(t[2])), tuple(build(i) for i in t[3]))
    if k == "MI":
        return Ln.MultiIndex([build(s) for s in t[1]], [int(s) for s in t[2]])
    if k == "Neg":
        return Ln.Neg(build(t[1]))
    if k == "Not":
        return Ln.Not(build(t[1]))
    if k in BINOPS:
        return getattr(Ln, k)(build(t[1]), build(t[2]))
    if k in ("Sum", "Product"):
        return getattr(Ln, k)([build(a) for a in t[1]])
    if k == "Math":
        return Ln.MathFunction(t[1], [build(a) for a in t[2]])
    if k == "Cond":
        return Ln.Conditional(build(t[1]), build(t[2]), build(t[3]))
    if k in ("Assign", "AssignAdd"):
        return Ln.Statement(getattr(Ln, k)(build(t[1]), build(t[2])))
    if k == "VarDecl":
        return Ln.VariableDecl(build(t[1]), None if t[2] is None else build(t[2]))
    if k == "ArrDecl":
        vals = t[4]
        if isinstance(vals, list):
            vals = np.asarray(vals, dtype=np.float64 if t[2] != "INT" else np.int64)
        return Ln.ArrayDecl(Ln.Symbol(t[1], _dtype(t[2])), sizes=tuple(int(s) for s in t[3]), values=vals, const=bool(t[5]))
    if k == "For":
        return Ln.ForRange(build(t[1]), build(t[2]), build(t[3]), body=[build(s) for s in t[4]])
    if k == "Section":
        ann = [getattr(Ln.Annotation, a) for a in (t[6] if len(t) > 6 else [])]
        return Ln.Section(
            t[1],
            [build(s) for s in t[2]],
            [build(d) for d in t[3]],
            input=[Ln.Symbol(n, _dtype(d)) for n, d in t[4]],
            output=[Ln.Symbol(n, _dtype(d)) for n, d in t[5]],
            annotations=ann,
        )
    if k == "Comment":
        return Ln.Comment(t[1])
    if k == "List":
        return Ln.StatementList([build(s) for s in t[1]])
    raise ValueError(f"unknown tree node {k}")


def _num(v):
    if isinstance(v, complex):
        return [float(v.real), float(v.imag)]
    return float(v)


def unbuild(n):
    """LNodes object -> JSON tree."""
    Ln = L()
    if isinstance(n, Ln.LiteralFloat):
        return ["LitF", _num(n.value)]
    if isinstance(n, Ln.LiteralInt):
        return ["LitI", int(n.value)]
    if isinstance(n, Ln.Symbol):
        return ["Sym", n.name, n.dtype.name]
    if isinstance(n, Ln.ArrayAccess):
        return ["Acc", n.array.name, n.array.dtype.name, [unbuild(i) for i in n.indices]]
    if isinstance(n, Ln.MultiIndex):
        return ["MI", [unbuild(s) for s in n.symbols], [int(s) for s in n.sizes]]
    if isinstance(n, Ln.Neg):
        return ["Neg", unbuild(n.arg)]
    if isinstance(n, Ln.Not):
        return ["Not", unbuild(n.arg)]
    if isinstance(n, Ln.AssignOp):
        name = type(n).__name__
        return [name, unbuild(n.lhs), unbuild(n.rhs)]
    if isinstance(n, Ln.BinOp):
        return [type(n).__name__, unbuild(n.lhs), unbuild(n.rhs)]
    if isinstance(n, Ln.NaryOp):
        return [type(n).__name__, [unbuild(a) for a in n.args]]
    if isinstance(n, Ln.MathFunction):
        return ["Math", n.function, [unbuild(a) for a in n.args]]
    if isinstance(n, Ln.Conditional):
        return ["Cond", unbuild(n.condition), unbuild(n.true), unbuild(n.false)]
    if isinstance(n, Ln.VariableDecl):
        return ["VarDecl", unbuild(n.symbol), None if n.value is None else unbuild(n.value)]
    if isinstance(n, Ln.ArrayDecl):
        vals = n.values
        if isinstance(vals, np.ndarray):
            if np.iscomplexobj(vals):
                vals = [[float(z.real), float(z.imag)] for z in vals.ravel()]
                vals = {"complex_flat": vals, "shape": list(n.values.shape)}
            else:
                vals = vals.tolist()
        elif vals is not None:
            vals = _num(vals) if not isinstance(vals, (int, np.integer)) else int(vals)
        return ["ArrDecl", n.symbol.name, n.symbol.dtype.name, [int(s) for s in n.sizes], vals, bool(n.const)]
    if isinstance(n, Ln.ForRange):
        return ["For", unbuild(n.index), unbuild(n.begin), unbuild(n.end), [unbuild(s) for s in n.body.statements]]
    if isinstance(n, Ln.Section):
        return [
            "Section",
            n.name,
            [unbuild(s) for s in n.statements],
            [unbuild(d) for d in n.declarations],
            [[s.name, s.dtype.name] for s in n.input],
            [[s.name, s.dtype.name] for s in n.output],
            [a.name for a in n.annotations],
        ]
    if isinstance(n, Ln.Comment):
        return ["Comment", n.comment]
    if isinstance(n, Ln.StatementList):
        return ["List", [unbuild(s) for s in n.statements]]
    if isinstance(n, Ln.Statement):
        return unbuild(n.expr)
    if isinstance(n, list):
        return ["List", [unbuild(s) for s in n]]
    raise ValueError(f"cannot unbuild {type(n).__name__}")


# ---------------------------------------------------------------------------------------
# evaluation
# ---------------------------------------------------------------------------------------


class OutOfBounds(Exception):
    pass


class Undefined(Exception):
    pass


def _c_div(a, b):
    if isinstance(a, (int, np.integer)) and isinstance(b, (int, np.integer)) and not isinstance(a, bool):
        q = abs(int(a)) // abs(int(b))
        return q if (a >= 0) == (b >= 0) else -q
    return a / b


def _cplx(x):
    return isinstance(x, (complex, np.complexfloating))


def _fn(name, args):
    a = args[0]
    c = _cplx(a)
    m = cmath if c else math
    if name == "sqrt":
        return m.sqrt(a)
    if name == "abs":
        return float(abs(a))
    if name in ("cos", "sin", "tan", "acos", "asin", "atan", "cosh", "sinh", "tanh", "acosh", "asinh", "atanh", "exp"):
        return getattr(m, name)(a)
    if name == "ln":
        return m.log(a)
    if name == "power":
        if not (c or _cplx(args[1])) and a < 0 and not float(args[1]).is_integer():
            raise ValueError("negative base with non-integer exponent")
        if isinstance(a, (int, np.integer)) and isinstance(args[1], (int, np.integer)):
            # C's pow() works on doubles; Python's int ** int would build an exact (astronomically large) integer
            try:
                return math.pow(float(a), float(args[1]))
            except OverflowError:
                return math.inf
        return a ** args[1]
    if name == "erf":
        return math.erf(a)
    if name in ("atan_2", "atan2"):
        return math.atan2(a, args[1])
    # fmin/fmax/fabs return a floating value even when an integer operand wins (the value must not be taken for an int by _c_div)
    if name == "min_value":
        return float(min(a, args[1]))
    if name == "max_value":
        return float(max(a, args[1]))
    if name in ("bessel_j", "bessel_y"):
        import mpmath

        n, x = args[0], args[1]
        if _cplx(x) or not isinstance(n, (int, np.integer)):
            raise ValueError("Bessel function outside the integer-order/real-argument domain")
        if name == "bessel_y" and x <= 0:
            raise ValueError("Y_n of a non-positive argument")
        if abs(x) > 1e6:
            # jn/yn of huge arguments are ill-conditioned; libm/cephes results differ from the exact value in the leading digits
            raise ValueError("Bessel function of a huge argument: no reproducible reference value")
        return float((mpmath.besselj if name == "bessel_j" else mpmath.bessely)(int(n), mpmath.mpf(float(x))))
    if name == "real":
        return a.real if c else a
    if name == "imag":
        return a.imag if c else 0.0
    if name == "conj":
        return a.conjugate() if c else a
    raise ValueError(f"math function {name}")


def _static_is_float(t):
    try:
        return build(t).dtype.name in ("REAL", "SCALAR")
    except Exception:
        return True


def eval_expr(t, env):
    """Evaluate an expression tree. env: name -> scalar or numpy array (with exact declared shape)."""
    k = t[0]
    if k == "LitF":
        return _lit_value(t[1])
    if k == "Cplx":
        return complex(t[1], t[2])
    if k == "LitI":
        return int(t[1])
    if k == "Sym":
        if t[1] not in env:
            raise Undefined(t[1])
        return env[t[1]]
    if k == "Acc":
        if t[1] not in env:
            raise Undefined(t[1])
        arr = env[t[1]]
        idx = [eval_expr(i, env) for i in (t[3] if len(t) > 3 else t[2])]
        if callable(arr):
            return arr(*idx)
        for i in idx:
            if not isinstance(i, (int, np.integer)):
                raise OutOfBounds(f"non-integer index {i!r} into {t[1]}")
        arr = np.asarray(arr) if not isinstance(arr, np.ndarray) else arr
        if len(idx) == arr.ndim:
            for i, n in zip(idx, arr.shape):
                if i < 0 or i >= n:
                    raise OutOfBounds(f"{t[1]}{idx} outside declared extents {arr.shape}")
            return arr[tuple(idx)].item() if arr.ndim else arr.item()
        if len(idx) == 1:  # flat access into a multi-dimensional buffer (kernel arguments)
            if idx[0] < 0 or idx[0] >= arr.size:
                raise OutOfBounds(f"{t[1]}[{idx[0]}] outside extent {arr.size}")
            return arr.ravel()[idx[0]].item()
        raise OutOfBounds(f"{t[1]} indexed with {len(idx)} indices, declared with {arr.ndim}")
    if k == "MI":
        tot = 0
        sizes = t[2]
        for j, s in enumerate(t[1]):
            stride = int(np.prod(sizes[j + 1 :])) if j + 1 < len(sizes) else 1
            tot += stride * eval_expr(s, env)
        return tot
    if k == "Neg":
        return -eval_expr(t[1], env)
    if k == "Not":
        return not eval_expr(t[1], env)
    if k in ("Sum", "Product"):
        vals = [eval_expr(a, env) for a in t[1]]
        r = vals[0]
        for v in vals[1:]:
            r = r + v if k == "Sum" else r * v
        return r
    if k == "Math":
        return _fn(t[1], [eval_expr(a, env) for a in t[2]])
    if k == "Cond":
        c = eval_expr(t[1], env)
        r = eval_expr(t[2], env) if c else eval_expr(t[3], env)
        if isinstance(r, (int, np.integer)) and not isinstance(r, bool):
            # C's usual arithmetic conversions: the conditional has the common type of both branches
            try:
                o = eval_expr(t[3], env) if c else eval_expr(t[2], env)
            except Exception:
                o = 0.0 if _static_is_float(t[3] if c else t[2]) else 0
            if isinstance(o, complex):
                r = complex(r)
            elif isinstance(o, float):
                r = float(r)
        return r
    if k == "And":
        return bool(eval_expr(t[1], env)) and bool(eval_expr(t[2], env))
    if k == "Or":
        return bool(eval_expr(t[1], env)) or bool(eval_expr(t[2], env))
    a, b = eval_expr(t[1], env), eval_expr(t[2], env)
    if k == "Add":
        return a + b
    if k == "Sub":
        return a - b
    if k == "Mul":
        return a * b
    if k == "Div":
        return _c_div(a, b)
    if k in ("LT", "GT", "LE", "GE") and (_cplx(a) or _cplx(b)):
        a, b = complex(a).real, complex(b).real
    if k == "EQ":
        return a == b
    if k == "NE":
        return a != b
    if k == "LT":
        return a < b
    if k == "GT":
        return a > b
    if k == "LE":
        return a <= b
    if k == "GE":
        return a >= b
    raise ValueError(f"unknown expression node {k}")


class Machine:
    """Executes statement trees. Scoping follows C: a declaration lives until its block ends."""

    def __init__(self, env=None, scalar_dtype=np.float64, readonly=()):
        self.scopes = [dict(env or {})]
        self.scalar_dtype = np.dtype(scalar_dtype)
        self.real_dtype = np.dtype(np.float32 if self.scalar_dtype in (np.dtype(np.float32), np.dtype(np.complex64)) else np.float64)
        self.readonly = set(readonly)
        self.steps = 0
        self.max_steps = 5_000_000

    # environment protocol for eval_expr
    def __contains__(self, name):
        return any(name in s for s in self.scopes)

    def __getitem__(self, name):
        for s in reversed(self.scopes):
            if name in s:
                return s[name]
        raise KeyError(name)

    def _np_dtype(self, dt):
        return {"SCALAR": self.scalar_dtype, "REAL": self.real_dtype, "INT": np.dtype(np.int64), "BOOL": np.dtype(bool)}[dt]

    def _assign(self, lhs, value, add):
        k = lhs[0]
        if k == "Sym":
            name = lhs[1]
            for s in reversed(self.scopes):
                if name in s:
                    if name in self.readonly:
                        raise OutOfBounds(f"write to read-only {name}")
                    s[name] = (s[name] + value) if add else value
                    return
            raise Undefined(name)
        if k == "Acc":
            name = lhs[1]
            if name not in self:
                raise Undefined(name)
            if name in self.readonly:
                raise OutOfBounds(f"write to read-only input {name}")
            arr = self[name]
            idx = [eval_expr(i, self) for i in lhs[3]]
            if len(idx) == arr.ndim:
                for i, n in zip(idx, arr.shape):
                    if i < 0 or i >= n:
                        raise OutOfBounds(f"write {name}{idx} outside declared extents {arr.shape}")
                if add:
                    arr[tuple(idx)] += value
                else:
                    arr[tuple(idx)] = value
                return
            if len(idx) == 1:
                if idx[0] < 0 or idx[0] >= arr.size:
                    raise OutOfBounds(f"write {name}[{idx[0]}] outside extent {arr.size}")
                flat = arr.reshape(-1)
                if add:
                    flat[idx[0]] += value
                else:
                    flat[idx[0]] = value
                return
            raise OutOfBounds(f"{name} indexed with {len(idx)} indices, declared with {arr.ndim}")
        raise ValueError(f"cannot assign to {k}")

    def run(self, t):
        self.steps += 1
        if self.steps > self.max_steps:
            raise RuntimeError("step budget exceeded")
        k = t[0]
        if k in ("Assign", "AssignAdd"):
            self._assign(t[1], eval_expr(t[2], self), k == "AssignAdd")
        elif k == "VarDecl":
            v = 0 if t[2] is None else eval_expr(t[2], self)
            self.scopes[-1][t[1][1]] = v
        elif k == "ArrDecl":
            name, dt, sizes, vals = t[1], t[2], t[3], t[4]
            dtype = self._np_dtype(dt)
            if isinstance(vals, dict):
                flat = np.array([complex(a, b) for a, b in vals["complex_flat"]]).reshape(vals["shape"])
                arr = flat.astype(np.complex128)
            elif isinstance(vals, list):
                arr = np.array(vals, dtype=np.float64 if dtype.kind != "i" else np.int64)
                if tuple(arr.shape) != tuple(sizes):
                    arr = np.broadcast_to(arr, tuple(sizes)).copy()
            elif vals is None:
                arr = np.full(tuple(sizes), np.nan if dtype.kind in "fc" else -(2**40), dtype=np.complex128 if dtype.kind == "c" else (np.float64 if dtype.kind == "f" else np.int64))
            else:
                arr = np.full(tuple(sizes), vals, dtype=np.complex128 if dtype.kind == "c" else (np.float64 if dtype.kind == "f" else np.int64))
            if dtype.kind == "c":
                arr = arr.astype(np.complex128)
            self.scopes[-1][name] = arr
            if t[5]:
                self.readonly.add(name)
        elif k == "For":
            idx = t[1]
            if idx[0] != "Sym":
                raise ValueError("loop index must be a symbol")
            b, e = eval_expr(t[2], self), eval_expr(t[3], self)
            for i in range(int(b), int(e)):
                self.scopes.append({idx[1]: i})
                for s in t[4]:
                    self.run(s)
                self.scopes.pop()
        elif k == "Section":
            # declarations are emitted before the braces and stay visible afterwards
            for d in t[3]:
                self.run(d)
            self.scopes.append({})
            for s in t[2]:
                self.run(s)
            self.scopes.pop()
        elif k == "List":
            for s in t[1]:
                self.run(s)
        elif k == "Comment":
            pass
        else:
            raise ValueError(f"unknown statement node {k}")


def tree_edges(t, acc=None, parent=None, pos=None):
    """Set of (parent kind, child kind, operand position) triples of an expression tree."""
    acc = set() if acc is None else acc
    k = t[0]
    if parent is not None:
        ck = k
        if k in ("LitF", "LitI"):
            v = t[1]
            neg = (isinstance(v, (int, float)) and v < 0) or (isinstance(v, (list, tuple)) and (v[0] < 0))
            ck = k + ("-" if neg else "+")
        acc.add((parent, ck, pos))
    if k in ("Neg", "Not"):
        tree_edges(t[1], acc, k, 0)
    elif k in BINOPS:
        tree_edges(t[1], acc, k, 0)
        tree_edges(t[2], acc, k, 1)
    elif k in ("Sum", "Product"):
        for i, a in enumerate(t[1]):
            tree_edges(a, acc, k, min(i, 2))
    elif k == "Math":
        for i, a in enumerate(t[2]):
            tree_edges(a, acc, "Math", i)
    elif k == "Cond":
        for i in (1, 2, 3):
            tree_edges(t[i], acc, "Cond", i - 1)
    elif k == "Acc":
        for i, a in enumerate(t[3]):
            tree_edges(a, acc, "Acc", min(i, 1))
    elif k == "MI":
        for i, a in enumerate(t[1]):
            tree_edges(a, acc, "MI", min(i, 1))
    return acc


def walk(t):
    """Every node (list whose head is a string) of an expression/statement tree, depth first."""
    if isinstance(t, (list, tuple)):
        if t and isinstance(t[0], str):
            yield t
        for a in t:
            if isinstance(a, (list, tuple)):
                yield from walk(a)
