"""Hypothesis strategies producing well-typed specs by construction (DESIGN.md section 3.2).

Typing is read off real UFL/basix objects built from the partial spec (``specs.typing_namespace``),
so the generator never guesses a shape.  No ``assume``/``filter`` on validity is used.
"""

from __future__ import annotations

import json

import numpy as np
from hypothesis import strategies as st

from . import specs
from .specs import TDIM

SIMPLEX = ("interval", "triangle", "tetrahedron")

# ---------------------------------------------------------------------------------------
# element pools (every entry verified to construct, see selftest_elements)
# ---------------------------------------------------------------------------------------


def element_pool(cell: str, gdim: int, maxdeg: int = 3, rich: bool = True):
    """List of (tag, E) for a cell.  Tags are the element kinds reported in evidence."""
    tdim = TDIM[cell]
    P = []

    def add(tag, E):
        P.append((tag, E))

    degs = list(range(1, maxdeg + 1))
    for d in degs:
        add("P", ["el", "P", d, {}])
    for d in range(0, min(maxdeg, 2) + 1):
        add("DG", ["el", "P", d, {"dc": True}] if d > 0 else ["el", "P", 0, {"dc": True}])
    for d in degs[:2]:
        add("vecP", ["el", "P", d, {"shape": [gdim]}])
    add("vecDG", ["el", "P", 1, {"shape": [gdim], "dc": True}])
    if rich:
        add("tensorP", ["el", "P", 1, {"shape": [gdim, gdim]}])
        add("tensorP", ["el", "P", 2, {"shape": [gdim, gdim]}])
        add("symP", ["el", "P", 1, {"shape": [gdim, gdim], "sym": True}])
        add("symP", ["el", "P", 2, {"shape": [gdim, gdim], "sym": True}])
        add("vec3P", ["el", "P", 1, {"shape": [3]}])
    piola_ok = gdim == tdim or True  # Piola maps on manifolds are supported by UFL/FFCx
    if cell in ("triangle", "tetrahedron") and piola_ok:
        for d in (1, 2):
            add("N1curl", ["el", "N1curl", d, {}])
            add("RT", ["el", "RT", d, {}])
            add("BDM", ["el", "BDM", d, {}])
            add("N2curl", ["el", "N2curl", d, {}])
        add("CR", ["el", "CR", 1, {}])
        if rich and gdim == tdim:
            add("Regge", ["el", "Regge", 0, {}])
            add("Regge", ["el", "Regge", 1, {}])
            add("HHJ", ["el", "HHJ", 0, {}])
            add("HHJ", ["el", "HHJ", 1, {}])
        add("Bubble", ["el", "Bubble", 3 if cell == "triangle" else 4, {}])
        add("enriched", ["enriched", [["el", "P", 1, {}], ["el", "Bubble", 3 if cell == "triangle" else 4, {}]]])
        add("MINI", ["blocked", ["enriched", [["el", "P", 1, {}], ["el", "Bubble", 3 if cell == "triangle" else 4, {}]]], [gdim]])
    if cell == "interval":
        add("Bubble", ["el", "Bubble", 2, {}])
    if rich and cell != "prism":
        # macro (iso) elements: piecewise polynomials on a refined cell, integrated with macro quadrature rules
        add("iso", ["el", "iso", 1, {}])
    if cell in ("quadrilateral", "hexahedron") and piola_ok:
        for d in (1, 2):
            add("RTCF", ["el", "RTCF" if cell == "quadrilateral" else "NCF", d, {}])
            add("RTCE", ["el", "RTCE" if cell == "quadrilateral" else "NCE", d, {}])
        add("DPC", ["el", "DPC", 1, {}])
        add("serendipity", ["el", "S", 1, {}])
        add("serendipity", ["el", "S", 2, {}])
    if rich:
        add("real", ["real", []])
        add("real", ["real", [gdim]])
        add("mixed", ["mixed", [["el", "P", 2 if maxdeg >= 2 else 1, {"shape": [gdim]}], ["el", "P", 1, {}]]])
        add("mixed", ["mixed", [["el", "P", 1, {}], ["el", "P", 1, {"dc": True}]]])
        # equal-order pairs: sub-elements with one scalar dimension but different block sizes, in both orders
        add("mixed", ["mixed", [["el", "P", 1, {"shape": [gdim]}], ["el", "P", 1, {}]]])
        add("mixed", ["mixed", [["el", "P", 1, {}], ["el", "P", 1, {"shape": [gdim]}]]])
        add("mixed", ["mixed", [["el", "P", 1, {"shape": [gdim]}], ["el", "P", 1, {"shape": [gdim], "dc": True}], ["el", "P", 0, {"dc": True}]]])
        add("mixed", ["mixed", [["el", "P", 1, {"shape": [gdim, gdim]}], ["el", "P", 1, {"shape": [gdim]}], ["el", "P", 1, {}]]])
        if maxdeg >= 2:
            add("mixed", ["mixed", [["el", "P", 2, {"shape": [gdim]}], ["el", "P", 2, {}]]])
        if cell in ("triangle", "tetrahedron"):
            add("mixed", ["mixed", [["el", "RT", 1, {}], ["el", "P", 0, {"dc": True}]]])
            add("mixed", ["mixed", [["el", "N1curl", 1, {}], ["el", "P", 1, {}]]])
            add("mixed", ["mixed", [["el", "BDM", 1, {}], ["el", "P", 0, {"dc": True}], ["el", "P", 1, {}]]])
            add("mixed", ["mixed", [["mixed", [["el", "P", 1, {"shape": [gdim]}], ["el", "P", 1, {}]]], ["el", "P", 1, {"dc": True}]]])
        if cell in ("quadrilateral", "hexahedron"):
            add("mixed", ["mixed", [["el", "RTCF" if cell == "quadrilateral" else "NCF", 1, {}], ["el", "P", 0, {"dc": True}]]])
    return P


def selftest_elements():
    """Construct every pool element on every cell once (generator soundness self-test)."""
    import basix.ufl  # noqa: F401

    n = 0
    for cell in ("interval", "triangle", "quadrilateral", "tetrahedron", "hexahedron", "prism"):
        for gdim in {TDIM[cell], min(TDIM[cell] + 1, 3)}:
            for tag, E in element_pool(cell, gdim):
                ns = {}
                exec(specs.PRELUDE + f'cell="{cell}"\nE = {specs.element_src(E)}\n', ns)
                assert ns["E"].dim > 0, (cell, tag, E)
                n += 1
    return n


# ---------------------------------------------------------------------------------------
# typed tree generation
# ---------------------------------------------------------------------------------------

LITS = [0.5, 2.0, -1.5, 3.0, 0.25, 0.3, -0.7, 1.1, 1e-3, 7.0]

SAFE_UNARY = ["sin", "cos", "tanh", "atan", "exp_s", "sqrt_s", "ln_s", "abs", "sq", "cube", "sinh_s", "cosh_s",
              "tan_s", "asin_s", "acos_s", "erf"]


def prob(draw, p) -> bool:
    """True with probability ~p.  Drawn through sampled_from: Hypothesis' floats()/integers() are deliberately skewed towards
    small values (measured: floats(0,1) < 0.1 in 33 % of draws, integers(0,9999) < 1000 in 71 %), which made rare classes common
    and common ones rarer than intended.  False comes first so that shrinking switches features off."""
    if p <= 0:
        return False
    if p >= 1:
        return True
    k = min(39, max(1, round(p * 40)))
    return draw(st.sampled_from([False] * (40 - k) + [True] * k))


class G:
    """Generation context of one spec."""

    def __init__(self, draw, spec, profile):
        self.draw = draw
        self.spec = spec
        self.profile = profile
        self.ns = specs.typing_namespace(spec)
        self.cell = spec["cell"]
        self.tdim = TDIM[self.cell]
        self.gdim = spec["gdim"]
        self.cdeg = spec["cdeg"]
        self.affine = self.cdeg == 1 and self.cell in SIMPLEX
        self.complex = profile.get("complex", False)
        self.features: set[str] = set()

    def shape(self, tree):
        return specs.tree_shape(tree, self.ns)

    def pick(self, seq):
        return self.draw(st.sampled_from(list(seq)))

    def chance(self, p):
        return prob(self.draw, p)

    def int(self, lo, hi):
        return self.draw(st.integers(lo, hi))


def elem_info(E, g: G):
    """(max derivative order usable without producing zero, is quadrature/real element)"""
    k = E[0]
    if k == "el":
        if E[1] == "iso":
            # basix 0.11 tabulates garbage for derivatives of macro (iso) elements (interval: d/dX of the mid-node hat is
            # 3 on one half and 5.5e19 on the other), so derivatives of these elements are outside the trusted base
            return 0, False
        return int(E[2]), False
    if k in ("real",):
        return 0, True
    if k in ("quad", "cquad"):
        return 0, True
    if k == "blocked":
        return elem_info(E[1], g)
    if k == "enriched":
        return max(elem_info(e, g)[0] for e in E[1]), False
    if k == "tp":
        return int(E[1]), False
    if k == "mixed":
        return 0, False
    return 0, False


def restrict_choice(g: G, tree, m, linear: bool):
    """Wrap `tree` (built from cell-wise data) for an interior-facet integral."""
    if m != "dS":
        return tree
    sh = g.shape(tree)
    opts = ["+", "-"]
    if linear:
        opts += ["avg", "jump"]
        if (len(sh) == 0 or sh == (g.gdim,)) and g.gdim == g.tdim and g.cell != "prism":
            opts.append("jumpn")
    op = g.pick(opts)
    g.features.add("restr:" + op)
    return [op, tree]


def gen_linear(g: G, base, E, m, allow_restrict=True, maxderiv=2):
    """A linear operator chain applied to `base` (argument or coefficient with element E).

    Returns a tree; its shape is read via g.shape.  Derivative order never exceeds what keeps the
    result non-zero for that element.
    """
    t = base
    # descend into mixed elements
    while E[0] == "mixed":
        i = g.int(0, len(E[1]) - 1)
        t = ["split", t, i]
        E = E[1][i]
        g.features.add("split")
    deg, noder = elem_info(E, g)
    nder = 0 if noder else min(deg, maxderiv)
    if not g.affine and nder > 1 and not g.profile.get("hessian_nonaffine", False):
        nder = 1
    if g.profile.get("no_derivatives"):
        nder = 0
    steps = g.int(0, 2)
    used = 0
    for _ in range(steps):
        sh = g.shape(t)
        ops = []
        if len(sh) == 0:
            if used < nder:
                ops += ["grad", "dx"]
        elif len(sh) == 1:
            ops += ["idx"]
            if used < nder:
                ops += ["grad", "nabla_grad"]
                if sh[0] == g.gdim:
                    ops += ["div", "symgrad"]
                    if g.gdim == 3 or g.gdim == 2:
                        ops += ["curl"]
        elif len(sh) == 2:
            ops += ["idx", "T"]
            if sh[0] == sh[1]:
                ops += ["tr", "sym", "skew"]
                if sh[0] in (2, 3):
                    ops += ["dev"]
            if used < nder and sh[1] == g.gdim:
                ops += ["div"]
        else:
            ops += ["idx"]
        if not ops:
            break
        op = g.pick(ops)
        g.features.add("L:" + op)
        if op in ("grad", "nabla_grad", "div", "curl"):
            t = [op, t]
            used += 1
        elif op == "symgrad":
            t = ["sym", ["grad", t]]
            used += 1
        elif op == "dx":
            t = ["dx", t, g.int(0, g.gdim - 1)]
            used += 1
        elif op == "idx":
            t = ["idx", t] + [g.int(0, s - 1) for s in sh]
        else:
            t = [op, t]
    if allow_restrict:
        t = restrict_choice(g, t, m, True)
    return t


def to_scalar(g: G, t):
    sh = g.shape(t)
    if len(sh) == 0:
        return t
    return ["idx", t] + [g.int(0, s - 1) for s in sh]


def geo_atoms(g: G, m):
    """Scalar geometric atoms valid for this cell/measure/geometry."""
    out = [("x", None)]
    out.append(("detJ", None))
    if g.affine:
        out += [("CellVolume", None), ("Circumradius", None)]
        if m in ("ds", "dS") and g.tdim >= 2:
            out.append(("FacetArea", None))
    if g.cdeg == 1 and g.cell != "prism":
        out.append(("CellDiameter", None))
        if g.tdim >= 2:
            out += [("MinCellEdgeLength", None), ("MaxCellEdgeLength", None)]
        if g.tdim == 3 and m in ("ds", "dS"):
            out += [("MinFacetEdgeLength", None), ("MaxFacetEdgeLength", None)]
    if m in ("ds", "dS") and g.gdim == g.tdim and g.cell != "prism":
        # FFCx rejects reference normals on prisms ("Unhandled cell types prism")
        out.append(("n", None))
    if g.gdim == g.tdim + 1 and g.gdim > 1:
        out.append(("CellNormal", None))
    out.append(("J", None))
    if g.gdim == g.tdim:
        out.append(("K", None))
    allowed = g.profile.get("geo")
    if allowed is not None:
        out = [o for o in out if o[0] in allowed]
    return out


FACET_DEFAULT: set = set()  # every geometric atom is restricted explicitly in dS integrals


def gen_atom(g: G, m):
    """A scalar atom (no arguments)."""
    spec = g.spec
    kinds = []
    if spec["coefs"]:
        kinds += ["coef", "coef"]
    if spec["consts"]:
        kinds += ["const"]
    kinds += ["geo", "lit"]
    if g.profile.get("no_geo"):
        kinds = [k for k in kinds if k != "geo"] or ["lit"]
    if m == "dS":
        kinds += ["geo", "geo"]
    k = g.pick(kinds)
    if k == "coef":
        i = g.int(0, len(spec["coefs"]) - 1)
        E = spec["elements"][spec["coefs"][i]]
        t = gen_linear(g, ["f", i], E, m, allow_restrict=False, maxderiv=1)
        t = to_scalar(g, t)
        if m == "dS":
            t = [g.pick(["+", "-"]), t]
        g.features.add("atom:coef")
        return t
    if k == "const":
        i = g.int(0, len(spec["consts"]) - 1)
        g.features.add("atom:const")
        return to_scalar(g, ["c", i])
    if k == "geo":
        name, _ = g.pick(geo_atoms(g, m))
        g.features.add("geo:" + name)
        t = to_scalar(g, ["geo", name])
        if m == "dS" and name not in FACET_DEFAULT:
            t = [g.pick(["+", "-"]), t]
        return t
    v = g.pick(LITS)
    if g.complex and g.chance(0.3):
        g.features.add("lit:complex")
        # purely imaginary literals (2j) as well as general ones
        return ["clit", 0.0 if g.chance(0.35) else v, g.pick(LITS)]
    if g.chance(0.3):
        # a Python int as users write it (2*f, max_value(1, f), 2**f): a UFL IntValue, an integer literal in the generated code
        g.features.add("lit:int")
        return ["lit", g.pick([1, 2, 3, -1, -2, 5])]
    return ["lit", v]


def gen_scalar(g: G, m, depth):
    """A scalar (possibly nonlinear) expression without arguments; domain-safe by construction."""
    if depth <= 0 or g.chance(0.35):
        return gen_atom(g, m)
    kind = g.pick(["add", "sub", "mul", "divsafe", "fun", "fun", "cond", "maxmin", "pow", "atan2"])
    a = gen_scalar(g, m, depth - 1)
    if kind == "atan2":
        if g.complex:
            kind = "mul"
        else:
            # second operand kept positive: away from the branch cut and the origin
            g.features.add("fun:atan2")
            b = gen_scalar(g, m, depth - 1)
            return ["atan2", a, ["add", ["lit", 2.0], _sq(g, b)]]
    if kind in ("add", "sub", "mul"):
        b = gen_scalar(g, m, depth - 1)
        g.features.add("op:" + kind)
        return [kind, a, b]
    if kind == "divsafe":
        if g.complex and g.chance(0.35):
            # division by a complex constant (f / 2j, f / (1.1-0.7j)); never zero: LITS has no zero
            g.features.add("op:div-by-complex-literal")
            return ["div_", a, ["clit", 0.0 if g.chance(0.5) else g.pick(LITS), g.pick(LITS)]]
        b = gen_scalar(g, m, depth - 1)
        g.features.add("op:div")
        return ["div_", a, ["add", ["lit", 2.0], _sq(g, b)]]
    if kind == "pow":
        g.features.add("op:pow")
        if g.chance(0.4):
            return ["pow", a, ["lit", g.pick([2, 3])]]
        if g.chance(0.3) and not g.complex and g.profile.get("int_base_pow"):
            # integer base, bounded real exponent (2**f).  Only for checks that compile for real scalar types: UFL's complex-mode
            # algebra lowering does not terminate on a constant base with a non-literal exponent (outside FFCx)
            g.features.add("op:pow-int-base")
            return ["pow", ["lit", g.pick([2, 3])], ["tanh", a]]
        # general power with positive base
        return ["pow", ["add", ["lit", 1.5], _sq(g, a)], ["lit", g.pick([0.5, 1.5, -0.5, 2.5])]]
    if kind == "maxmin":
        if g.complex:
            return a if a[0] == "abs" else ["abs", a]
        b = gen_scalar(g, m, depth - 1)
        op = g.pick(["max", "min"])
        g.features.add("op:" + op)
        return [op, a, b]
    if kind == "cond":
        if g.complex:
            # comparisons need real operands in complex mode
            a2, b2 = ["real", a], ["real", gen_scalar(g, m, depth - 1)]
        else:
            a2, b2 = a, gen_scalar(g, m, depth - 1)
        c = [g.pick(["lt", "gt", "le", "ge"]), a2, b2]
        r = g.int(0, 5)
        if r == 0:
            c = ["not", c]
        elif r == 1:
            c = ["and", c, [g.pick(["lt", "gt"]), b2, ["lit", g.pick(LITS)]]]
        elif r == 2:
            c = ["or", c, [g.pick(["lt", "gt"]), a2, ["lit", g.pick(LITS)]]]
        elif r == 3:
            c = [g.pick(["ne", "eq"]), a2, ["lit", 0.123]]
        g.features.add("op:cond")
        return ["cond", c, gen_scalar(g, m, depth - 1), gen_scalar(g, m, depth - 1)]
    funs = SAFE_UNARY if not g.complex else ["sin", "cos", "exp_s", "sq", "cube", "abs", "sqrt_s", "conj", "real", "imag", "sinh_s", "cosh_s", "tanh"]
    if g.profile.get("bessel") and not g.complex:
        # Bessel functions of the first/second kind (C: jn/yn); argument kept in [0.5, 2.5] (Y_n is singular at 0)
        funs = list(funs) + ["besselJ_s", "besselY_s"]
    f = g.pick(funs)
    g.features.add("fun:" + f)
    if f in ("besselJ_s", "besselY_s"):
        return ["bessel_J" if f == "besselJ_s" else "bessel_Y", ["lit", g.int(0, 2)], ["add", ["lit", 1.5], ["tanh", a]]]
    if f == "abs" and a[0] == "abs":
        return a  # UFL 2026.1 turns abs(abs(x)) into an Abs node that is its own operand (infinite recursion): not expressible
    if f in ("sin", "cos", "tanh", "atan", "abs", "erf", "conj", "real", "imag"):
        if f == "tanh" and g.complex:
            return ["tanh", ["real", a]]
        return [f, a]
    if f == "sq":
        return ["pow", a, ["lit", 2]]
    if f == "cube":
        return ["mul", a, ["mul", a, a]]
    bounded = ["tanh", ["real", a]] if g.complex else ["tanh", a]
    if f in ("exp_s", "sinh_s", "cosh_s"):
        return [f[:-2], bounded]
    if f == "tan_s":
        return ["tan", bounded]
    if f in ("asin_s", "acos_s"):
        return [f[:-2], ["mul", ["lit", 0.9], bounded]]
    if f == "sqrt_s":
        return ["sqrt", ["add", ["lit", 1.0], _sq(g, a)]]
    if f == "ln_s":
        return ["ln", ["add", ["lit", 2.0], _sq(g, a)]]
    raise AssertionError(f)


def _sq(g: G, a):
    """A non-negative real quantity built from a (|a|^2 in complex mode)."""
    if g.complex:
        return ["real", ["mul", a, ["conj", a]]]
    return ["mul", a, a]


def gen_tensor(g: G, m, shape, depth):
    """An argument-free expression of the given shape."""
    if len(shape) == 0:
        return gen_scalar(g, m, depth)
    if len(shape) == 1:
        return ["as_vector", [gen_scalar(g, m, max(depth - 1, 0)) for _ in range(shape[0])]]
    if len(shape) == 2:
        if shape[0] * shape[1] > 4 and depth > 0:
            depth = 0
        return ["as_matrix", [[gen_scalar(g, m, max(depth - 1, 0)) for _ in range(shape[1])] for _ in range(shape[0])]]
    raise AssertionError(shape)


def gen_integrand(g: G, m, depth):
    """Integrand of one integral; for arity >= 1 sometimes placed inside a conditional (argument-dependent branches)."""
    t = _gen_integrand(g, m, depth)
    if len(g.spec["args"]) >= 1 and g.chance(g.profile.get("p_sum", 0.3)):
        # a sum of independently generated terms, as in a = inner(grad u, grad v) - p div v + q div u: other sub-functions of a
        # mixed argument, other operator chains and other coefficients in one kernel
        for _ in range(g.int(1, 2)):
            t = [g.pick(["add", "sub"]), t, _gen_integrand(g, m, max(depth - 1, 0))]
        g.features.add("sum-of-terms")
    if len(g.spec["args"]) >= 1 and g.chance(g.profile.get("p_argcond", 0.08)):
        a, b = gen_scalar(g, m, 1), gen_scalar(g, m, 0)
        if g.complex:
            a, b = ["real", a], ["real", b]
        c = [g.pick(["lt", "gt", "le", "ge"]), a, b]
        other = g.pick(["zero", "zero", "scaled", "negated"])
        g.features.add("argument-inside-conditional:" + other)
        if other == "zero":
            return ["cond", c, t, ["lit", 0.0]] if g.chance(0.5) else ["cond", c, ["lit", 0.0], t]
        if other == "scaled":
            return ["cond", c, t, ["mul", ["lit", 0.25], t]]
        return ["cond", c, t, ["neg", t]]
    return t


def _gen_integrand(g: G, m, depth):
    spec = g.spec
    arity = len(spec["args"])
    els = spec["elements"]
    K = gen_scalar(g, m, depth) if g.chance(0.8) else ["lit", 1.0]
    k_on_test = g.chance(0.3)
    if g.complex and arity >= 1 and g.chance(0.25):
        # a bare complex literal in the conjugated slot of inner(): the kernel must use its conjugate
        K = ["clit", g.pick(LITS), g.pick(LITS)]
        k_on_test = True
        g.features.add("lit:complex")
        g.features.add("complex-literal-on-test-side")
    if arity == 0:
        t = gen_scalar(g, m, depth + 1)
        if K != ["lit", 1.0]:
            t = ["mul", K, t]
        return t
    Lv = gen_linear(g, ["v"], els[spec["args"][0]], m)
    shv = g.shape(Lv)
    if arity == 1:
        if len(shv) > 2:
            Lv = to_scalar(g, Lv)
            shv = ()
        Gt = gen_tensor(g, m, shv, max(depth - 1, 0))
        if K != ["lit", 1.0]:
            if k_on_test:
                # the scalar factor sits in the conjugated slot of inner(): in complex mode it must come out conjugated
                g.features.add("factor-on-test-side")
                return ["inner", Gt, ["mul", K, Lv]]
            Gt = ["mul", K, Gt]
        return ["inner", Gt, Lv]
    Lu = gen_linear(g, ["u"], els[spec["args"][1]], m)
    shu = g.shape(Lu)
    if shu != shv or len(shu) > 2 or g.chance(0.15):
        Lu, Lv = to_scalar(g, Lu), to_scalar(g, Lv)
    if g.chance(0.25) and len(g.shape(Lu)) == 2 and g.shape(Lu)[0] == g.shape(Lu)[1]:
        # tensor coefficient acting on the trial function
        Mt = gen_tensor(g, m, g.shape(Lu), 0)
        Lu = ["dot", Mt, Lu]
        g.features.add("tensor-coefficient")
    elif g.chance(0.25) and len(g.shape(Lu)) == 1:
        n = g.shape(Lu)[0]
        if n <= 3:
            Mt = gen_tensor(g, m, (n, n), 0)
            Lu = ["dot", Mt, Lu]
            g.features.add("tensor-coefficient")
    Lu0 = Lu
    Lv_f = Lv
    if K != ["lit", 1.0]:
        if k_on_test:
            g.features.add("factor-on-test-side")
            Lv_f = ["mul", K, Lv]
        else:
            Lu = ["mul", K, Lu]
    term = ["inner", Lu, Lv_f]
    if g.chance(g.profile.get("p_multiterm", 0.3)):
        # a second product of the same argument pair in the opposite operand order (test function first), so that
        # argument factorisation has to merge two contributions to one (test, trial) block
        su, sv = to_scalar(g, Lu0), to_scalar(g, Lv)
        K2 = gen_scalar(g, m, 1)
        second = ["mul", ["mul", ["conj", sv] if g.complex else sv, K2], su]
        if g.chance(0.5):
            second = ["mul", ["conj", sv] if g.complex else sv, ["mul", su, K2]]
        term = [g.pick(["add", "sub"]), term, second]
        g.features.add("multiterm")
    return term


# ---------------------------------------------------------------------------------------
# form specs
# ---------------------------------------------------------------------------------------

DEFAULT_PROFILE = {
    "cells": ["interval", "triangle", "quadrilateral", "tetrahedron", "hexahedron", "prism"],
    "measures": ["dx"],
    "arities": [0, 1, 2],
    "maxdeg": 3,
    "max_integrals": 3,
    "depth": 2,
    "manifold": 0.15,
    "nonaffine": 0.4,
    "complex": False,
    "ids": "simple",
}


def cell_supports(cell, m):
    if m == "dx":
        return True
    if m == "ds":
        return True
    if m == "dS":
        return cell != "prism"
    if m == "dP":
        return True
    if m == "dr":
        return TDIM[cell] >= 2
    return False


def gen_metadata(draw, pr, cell, m):
    """Quadrature metadata FFCx documents/tests as supported for this cell and measure."""
    md = {}
    tdim = TDIM[cell]
    if m == "dP":
        return md
    if prob(draw, pr.get("p_degree", 0.7)):
        md["quadrature_degree"] = draw(st.integers(pr.get("min_qdeg", 0), pr.get("max_qdeg", 5)))
    ps, pv = pr.get("p_scheme", 0.1), pr.get("p_vertex", 0.05)
    r = 0.0 if prob(draw, ps) else (ps + 0.5 * pv if prob(draw, pv / max(1e-9, 1 - ps)) else 1.0)
    # entity the rule lives on
    ent_is_point = (m in ("ds", "dS") and tdim == 1) or (m == "dr" and tdim == 2)
    mixed_facets = cell == "prism" and m in ("ds", "dS")
    if r < pr.get("p_scheme", 0.1) and not ent_is_point and cell != "prism":
        ent = cell if m == "dx" else {"triangle": "interval", "quadrilateral": "interval", "tetrahedron": "triangle",
                                      "hexahedron": "quadrilateral"}.get(cell, "interval")
        if m == "dr":
            ent = "interval"
        rule = draw(st.sampled_from(["GLL", "Gauss-Jacobi", "default"]))
        if rule == "GLL" and ent not in ("interval", "quadrilateral", "hexahedron"):
            rule = "Gauss-Jacobi"
        md["quadrature_rule"] = rule
        md.setdefault("quadrature_degree", draw(st.integers(1, pr.get("max_qdeg", 5))))
    elif r < pr.get("p_scheme", 0.1) + pr.get("p_vertex", 0.05) and not ent_is_point and not mixed_facets and m != "dr":
        md["quadrature_rule"] = "vertex"
        md["quadrature_degree"] = 1
    return md


def gen_subdomain_id(draw, pr):
    mode = pr["ids"]
    if mode == "simple":
        return draw(st.sampled_from([None, None, 0, 1, 3]))
    if mode == "few":  # many integrals share a subdomain -> several rules / coefficient subsets per kernel
        return draw(st.sampled_from([None, None, None, 2]))
    if mode == "rich":
        r = draw(st.integers(0, 5))
        if r <= 1:
            return None
        if r <= 3:
            return draw(st.sampled_from([0, 1, 2, 5, 7, 11]))
        n = draw(st.integers(1, 3))
        return sorted(set(draw(st.sampled_from([0, 1, 2, 5, 7, 11])) for _ in range(n)))
    return None


@st.composite
def form_specs(draw, profile=None):
    pr = dict(DEFAULT_PROFILE)
    pr.update(profile or {})
    cell = draw(st.sampled_from(pr["cells"]))
    tdim = TDIM[cell]
    gdim = tdim
    if tdim < 3 and prob(draw, pr["manifold"]):
        gdim = tdim + 1
    cdeg = 2 if prob(draw, pr["nonaffine"]) else 1
    if pr.get("affine_only"):
        cdeg = 1
    measures = [m for m in pr["measures"] if cell_supports(cell, m)]
    maxdeg = pr["maxdeg"]
    if cell in ("tetrahedron", "hexahedron", "prism"):
        maxdeg = min(maxdeg, 2)
    pool = element_pool(cell, gdim, maxdeg=maxdeg, rich=pr.get("rich", True))
    if cell == "prism":
        pool = [(t, E) for t, E in pool if t in ("P", "DG", "vecP", "vecDG", "real", "tensorP", "symP")]
    allowed = pr.get("element_tags")
    coef_pool = None
    if allowed:
        if pr.get("coef_element_tags"):
            # coefficients may live in further spaces than the arguments (C03: Piola-mapped coefficients, Lagrange arguments)
            coef_pool = [(t, E) for t, E in pool if t in allowed or (t, E[2] if E[0] == "el" else None) in [tuple(x) for x in pr["coef_element_tags"]]]
        pool = [(t, E) for t, E in pool if t in allowed]
    if pr.get("tp"):
        # tensor-product factorised elements (the only ones sum factorisation accepts), as in test_tensor_product.py
        pool = [("tpQ", ["tp", d, []]) for d in range(1, maxdeg + 1)] + [("tpvecQ", ["tp", d, [gdim]]) for d in (1, 2)]
        # the same degree with another 1D basis (Lagrange variant): factor tables must not be shared between variants
        pool += [("tpQ-equispaced", ["tp", d, [], "equispaced"]) for d in range(2, maxdeg + 1)]
    arity = draw(st.sampled_from(pr["arities"]))
    nint = draw(st.integers(1, pr["max_integrals"]))
    int_measures = [draw(st.sampled_from(measures)) for _ in range(nint)]
    if "dP" in int_measures:
        # FFCx documents: "Vertex integrals not supported for discontinuous elements"
        pool = [(t, E) for t, E in pool if '"dc": true' not in json.dumps(E) and t not in ("real",)]
    ncoef = draw(st.integers(*pr.get("ncoef", (0, 3))))
    nconst = draw(st.integers(*pr.get("nconst", (0, 2))))
    elements = []
    tags = []

    def new_element(argument=False):
        cand = pool if (argument or coef_pool is None) else coef_pool
        if argument:
            # arguments in real/quadrature spaces are legal but make most operators vanish
            cand = [(t, E) for t, E in pool if t != "real"] or pool
            mixed = [(t, E) for t, E in cand if t == "mixed"]
            if mixed and prob(draw, pr.get("p_mixed_arg", 0.25)):
                cand = mixed  # mixed spaces (Stokes, mixed Poisson, three-field) are everyday inputs, not 1 in 50
        tag, E = draw(st.sampled_from(cand))
        if E in elements:
            return elements.index(E)
        elements.append(E)
        tags.append(tag)
        return len(elements) - 1

    args = []
    if arity >= 1:
        args.append(new_element(True))
    if arity == 2:
        args.append(args[0] if (pr.get("same_args") or prob(draw, 0.6)) else new_element(True))
    coefs = [new_element() for _ in range(ncoef)]
    const_shapes = [[], [], [gdim], [gdim, gdim], [2], [3], [2, 3]]
    consts = [draw(st.sampled_from(const_shapes)) for _ in range(nconst)]
    qcoef = None
    if (pr.get("p_qelement", 0.0) > 0 and set(int_measures) == {"dx"} and not pr.get("tp")
            and prob(draw, pr["p_qelement"])):
        # a coefficient living in a quadrature element: its points/weights define the rule of every integral it occurs in
        qdeg = draw(st.integers(1, 3 if tdim == 3 else 4))
        qE = ["quad", qdeg, "default", draw(st.sampled_from([[], [], [gdim]]))]
        elements.append(qE)
        tags.append("quadrature")
        coefs.append(len(elements) - 1)
        qcoef = len(coefs) - 1
    sibling_coef = None
    if pr.get("tp") and elements and prob(draw, pr.get("p_tp_sibling", 0.35)):
        # two tensor-product elements of the same degree >= 3 whose 1D bases differ (GLL-warped vs equispaced nodes) in one
        # kernel: their 1D factor tables must be kept apart although family, degree and derivative order coincide
        cand = [i for i, E in enumerate(elements) if E[0] == "tp" and int(E[1]) >= 3]
        if cand:
            i = draw(st.sampled_from(cand))
        else:
            i = args[0] if args else 0
            elements[i] = ["tp", 3] + list(elements[i][2:])
        E = elements[i]
        variant = E[3] if len(E) > 3 and E[3] else "gll_warped"
        sib = ["tp", int(E[1]), [], "equispaced" if variant != "equispaced" else "gll_warped"]
        if sib not in elements:
            elements.append(sib)
            tags.append("tp-variant-sibling")
        coefs.append(elements.index(sib))
        sibling_coef = len(coefs) - 1
    spec = {
        "kind": "form",
        "cell": cell,
        "gdim": gdim,
        "cdeg": cdeg,
        "elements": elements,
        "args": args,
        "coefs": coefs,
        "consts": consts,
        "integrals": [],
    }
    if pr.get("tp"):
        spec["tp"] = True
    if (len(elements) >= 2 and set(int_measures) == {"dx"} and not pr.get("tp") and qcoef is None and prob(draw, pr.get("p_mesh2", 0.0))
            and not any(E[0] in ("real", "quad", "cquad") for E in elements)):
        # some function spaces on a second mesh object of the same cell type (codimension-0 sub-mesh); integration over `mesh`
        k = draw(st.integers(1, len(elements) - 1))
        spec["mesh2"] = sorted(draw(st.permutations(list(range(len(elements)))))[:k])
        tags.append("second-mesh")
    g = G(draw, spec, pr)
    for j in range(nint):
        m = int_measures[j]
        md = gen_metadata(draw, pr, cell, m)
        sid = gen_subdomain_id(draw, pr)
        e = gen_integrand(g, m, pr["depth"])
        if sibling_coef is not None:
            e = ["mul", ["f", sibling_coef], e]
            g.features.add("tp-variant-sibling")
        if qcoef is not None and (j == 0 or draw(st.booleans())):
            # the integral takes the quadrature element's own rule: no degree/scheme metadata of its own
            md = {}
            e = ["mul", to_scalar(g, ["f", qcoef]), e]
            g.features.add("quadrature-element-coefficient")
        spec["integrals"].append({"m": m, "id": sid, "md": md, "e": e})
    # form-level transformation (C05: coefficients that drop out of the compiled form)
    if arity <= 1 and coefs and prob(draw, pr.get("p_derivative", 0.0)):
        used = sorted({k for I in spec["integrals"] for k in _coefs_in(I["e"])})
        if used:
            spec["transform"] = ["derivative", draw(st.sampled_from(used))]
            g.features.add("transform:derivative")
    if "transform" not in spec and prob(draw, pr.get("p_transform", 0.0)):
        # form-level operators applied to the finished form (UFL expands them; FFCx must compile the result)
        opts = []
        if arity == 2:
            opts.append(["adjoint"])
            same = [k for k, ei in enumerate(coefs) if ei == args[1]]
            if same:
                opts.append(["action", draw(st.sampled_from(same))])
        pairs = [(a, b) for a in range(len(coefs)) for b in range(len(coefs)) if a != b and coefs[a] == coefs[b]]
        if pairs:
            a, b = draw(st.sampled_from(pairs))
            opts.append(["replace", a, b])
        if opts:
            spec["transform"] = draw(st.sampled_from(opts))
            g.features.add("transform:" + spec["transform"][0])
    if pr.get("shuffle_decl") and draw(st.booleans()):
        names = [f"f{k}" for k in range(len(coefs))] + [f"c{k}" for k in range(len(consts))]
        spec["order"] = list(draw(st.permutations(names)))
    spec["_tags"] = sorted(set(tags))
    spec["_features"] = sorted(g.features)
    spec["data_seed"] = draw(st.integers(0, 2**31 - 1))
    return spec


def _coefs_in(t, acc=None):
    acc = set() if acc is None else acc
    if isinstance(t, list):
        if len(t) == 2 and t[0] == "f" and isinstance(t[1], int):
            acc.add(t[1])
        for a in t:
            if isinstance(a, list):
                _coefs_in(a, acc)
    return acc


def spec_classes(spec):
    """Class labels of a spec for the measured distribution."""
    out = [f"cell:{spec['cell']}", f"arity:{len(spec['args'])}", f"cdeg:{spec['cdeg']}"]
    if spec["gdim"] > TDIM[spec["cell"]]:
        out.append("manifold")
    out += [f"elem:{t}" for t in spec.get("_tags", [])]
    out += [f"measure:{m}" for m in sorted({i['m'] for i in spec["integrals"]})]
    out.append(f"nintegrals:{len(spec['integrals'])}")
    for f in spec.get("_features", []):
        if f.startswith(("fun:", "op:", "geo:", "L:", "restr:", "transform:", "argument-inside-conditional:", "template:")) or f in (
                "split", "tensor-coefficient", "multiterm", "sum-of-terms", "factor-on-test-side", "complex-literal-on-test-side", "quadrature-element-coefficient",
                "tp-variant-sibling"):
            out.append(f)
    return out


def strip_meta(spec):
    return {k: v for k, v in spec.items() if not k.startswith("_")}


# ---------------------------------------------------------------------------------------
# expression specs (C04)
# ---------------------------------------------------------------------------------------


def _facet_cell(cell):
    return {"triangle": "interval", "quadrilateral": "interval", "tetrahedron": "triangle", "hexahedron": "quadrilateral"}[cell]


def _ref_vertices(cell):
    import basix

    return np.asarray(basix.geometry(getattr(basix.CellType, cell)))


@st.composite
def reference_points(draw, cell, npts, asymmetric=True):
    """Interior points of a reference cell, rounded to 3 decimals, pairwise distinct and in general position."""
    V = _ref_vertices(cell)
    pts = []
    for k in range(npts):
        lam = [draw(st.integers(1, 9)) + 0.37 * (k + 1) + 0.11 * j * (k + 2) for j in range(V.shape[0])]
        lam = np.array(lam) / sum(lam)
        pts.append(np.round(lam @ V, 3).tolist())
    return pts


@st.composite
def expr_specs(draw, profile=None):
    pr = dict(DEFAULT_PROFILE)
    pr.update({"depth": 2, "maxdeg": 2})
    pr.update(profile or {})
    cell = draw(st.sampled_from([c for c in pr["cells"] if c != "prism"]))
    tdim = TDIM[cell]
    gdim = tdim + 1 if (tdim < 3 and prob(draw, pr["manifold"])) else tdim
    cdeg = 2 if prob(draw, pr["nonaffine"]) else 1
    facet = tdim >= 2 and prob(draw, pr.get("p_facet", 0.35))
    m = "ds" if facet else "dx"
    maxdeg = min(pr["maxdeg"], 2 if tdim == 3 else 3)
    pool = element_pool(cell, gdim, maxdeg=maxdeg, rich=True)
    pool = [(t, E) for t, E in pool if t not in ("real",)]
    elements, tags = [], []

    def new_element():
        tag, E = draw(st.sampled_from(pool))
        if E in elements:
            return elements.index(E)
        elements.append(E)
        tags.append(tag)
        return len(elements) - 1

    has_arg = prob(draw, pr.get("p_argument", 0.4))
    args = [new_element()] if has_arg else []
    coefs = [new_element() for _ in range(draw(st.integers(0 if has_arg else 1, 3)))]
    const_shapes = [[], [], [gdim], [gdim, gdim], [2], [2, 3]]
    consts = [draw(st.sampled_from(const_shapes)) for _ in range(draw(st.integers(0, 3)))]
    spec = {"kind": "expr", "cell": cell, "gdim": gdim, "cdeg": cdeg, "elements": elements, "args": args, "coefs": coefs,
            "consts": consts}
    g = G(draw, spec, pr)
    kinds = ["tensor", "gradscalar"]
    if coefs:
        kinds += ["Lf", "Lf"]
    if has_arg:
        kinds = ["argK", "argK", "argK"]
    if len(consts) >= 2 and coefs and not has_arg:
        kinds += ["mixdrop", "mixdrop"]
    if len(coefs) >= 2 and not has_arg:
        kinds += ["gateaux", "gateaux"]
    hess = [k for k, ei in enumerate(coefs) if g.affine and elements[ei][0] == "el" and elements[ei][1] == "P" and int(elements[ei][2]) >= 2]
    if hess and not has_arg:
        kinds += ["hessian"] * 5
    kind = draw(st.sampled_from(kinds))
    g.features.add("exprkind:" + kind)
    if kind == "hessian":
        # all second derivatives of a coefficient (mixed ones occur twice: d/dXdY and d/dYdX)
        k = draw(st.sampled_from(hess))
        e = ["grad", ["grad", ["f", k]]]
        if g.chance(0.5):
            e = ["mul", gen_scalar(g, m, 1), e]
    elif kind == "Lf":
        k = g.int(0, len(coefs) - 1)
        e = gen_linear(g, ["f", k], elements[coefs[k]], m, allow_restrict=False)
        if g.chance(0.5):
            e = ["mul", gen_scalar(g, m, 1), e]
    elif kind == "tensor":
        shape = draw(st.sampled_from([(), (2,), (3,), (2, 2), (2, 3)]))
        e = gen_tensor(g, m, shape, pr["depth"])
    elif kind == "gradscalar":
        # the x term guarantees that the operand has a domain (grad of a bare literal is not defined by UFL)
        e = ["grad", ["add", gen_scalar(g, m, pr["depth"]), ["idx", ["geo", "x"], 0]]]
    elif kind == "argK":
        e = gen_linear(g, ["v"], elements[args[0]], m, allow_restrict=False)
        if g.chance(0.7):
            e = ["mul", gen_scalar(g, m, 1), e]
    elif kind == "gateaux":
        # linear in the first-created coefficient: its Gateaux derivative eliminates it, later coefficients survive
        f0s = to_scalar(g, gen_linear(g, ["f", 0], elements[coefs[0]], m, allow_restrict=False, maxderiv=0))
        k = g.int(1, len(coefs) - 1)
        other = to_scalar(g, gen_linear(g, ["f", k], elements[coefs[k]], m, allow_restrict=False, maxderiv=1))
        e = ["mul", f0s, ["add", other, ["lit", 0.5]]]
        spec["transform"] = ["derivative", 0]
    else:  # mixdrop: constants that differentiation removes
        i, j = 0, 1
        k = g.int(0, len(coefs) - 1)
        fs = to_scalar(g, gen_linear(g, ["f", k], elements[coefs[k]], m, allow_restrict=False, maxderiv=0))
        e = ["grad", ["add", to_scalar(g, ["c", i]), ["mul", to_scalar(g, ["c", j]), ["mul", ["idx", ["geo", "x"], 0], fs]]]]
    # keep the value rank moderate
    if len(g.shape(e)) > 3:
        e = to_scalar(g, e)
    spec["e"] = e
    npts = draw(st.integers(1, 4))
    pcell = _facet_cell(cell) if facet else cell
    mode = draw(st.sampled_from(["interior", "interior", "vertices"]))
    if mode == "vertices" and not facet:
        spec["points"] = _ref_vertices(pcell).tolist()
    else:
        spec["points"] = draw(reference_points(pcell, npts))
    spec["facet"] = bool(facet)
    spec["_tags"] = sorted(set(tags))
    spec["_features"] = sorted(g.features)
    spec["data_seed"] = draw(st.integers(0, 2**31 - 1))
    return spec


def expr_classes(spec):
    out = [f"cell:{spec['cell']}", f"cdeg:{spec['cdeg']}", "facet-points" if spec.get("facet") else "cell-points",
           f"rank:{len(spec['args'])}", f"npoints:{min(len(spec['points']), 5)}"]
    out += [f"elem:{t}" for t in spec.get("_tags", [])]
    for f in spec.get("_features", []):
        if f.startswith(("exprkind:", "fun:", "geo:", "L:", "op:")) or f == "split":
            out.append(f)
    return out


# ---------------------------------------------------------------------------------------
# template layer (DESIGN.md 3.2): the standard forms of the demos/tests, instantiated over cells, degrees and geometry
# ---------------------------------------------------------------------------------------

def _n(restr=None):
    t = ["geo", "n"]
    return [restr, t] if restr else t


TEMPLATES = {
    # name: (measures, arity, needs)
    "mass": "dx", "stiffness": "dx", "helmholtz-coefficient": "dx", "elasticity": "dx", "convection": "dx", "hyperelastic-derivative": "dx",
    "mixed-poisson": "dx", "curl-curl": "dx", "stokes": "dx", "coefficient-product": "dx",
    "dg-avg-avg": "dS", "dg-jump-jump": "dS", "dg-interior-penalty": "dS", "dg-upwind": "dS", "nitsche-boundary": "ds", "facet-normal-flux": "ds",
    # complex mode only
    "helmholtz-impedance": "ds", "complex-vertex-mass": "dP",
}
COMPLEX_TEMPLATES = ("helmholtz-impedance", "complex-vertex-mass")


@st.composite
def template_specs(draw, profile=None):
    """Instances of well-known variational forms (the demos' and tests' repertoire) as specs."""
    pr = dict(DEFAULT_PROFILE)
    pr.update(profile or {})
    names = [n for n, m in TEMPLATES.items() if m in pr["measures"] or (m == "dx" and "dx" in pr["measures"])]
    if pr.get("templates"):
        names = [n for n in names if n in pr["templates"]]
    if not pr.get("complex"):
        names = [n for n in names if n not in COMPLEX_TEMPLATES]
    else:
        names = [n for n in names if n not in ("dg-upwind", "hyperelastic-derivative")]  # abs() of complex values; Gateaux derivative of a non-holomorphic energy
    if pr.get("complex"):
        names = names + [n for n in names if n in COMPLEX_TEMPLATES] * 3
    name = draw(st.sampled_from(names))
    simplex_only = name in ("mixed-poisson", "curl-curl", "stokes")
    cells = [c for c in pr["cells"] if c != "prism" and not (simplex_only and c not in ("triangle", "tetrahedron"))]
    if name == "helmholtz-impedance":
        cells = [c for c in cells]  # all cells incl. the interval (point facets: no geometric scale factor)
    if name in ("elasticity", "convection", "hyperelastic-derivative", "stokes", "curl-curl", "dg-upwind", "facet-normal-flux", "nitsche-boundary", "dg-interior-penalty"):
        cells = [c for c in cells if TDIM[c] >= 2]
    cell = draw(st.sampled_from(cells))
    tdim = gdim = TDIM[cell]
    cdeg = 2 if (prob(draw, pr["nonaffine"]) and not pr.get("affine_only")) else 1
    deg = draw(st.integers(1, 2 if tdim == 3 else min(pr["maxdeg"], 3)))
    dc = name.startswith("dg-") and draw(st.booleans())
    P = ["el", "P", deg, {"dc": True} if dc else {}]
    vecP = ["el", "P", deg, {"shape": [gdim]}]
    u, v, f, g_ = ["u"], ["v"], ["f", 0], ["f", 1]
    cj = (lambda t: ["conj", t]) if pr.get("complex") else (lambda t: t)  # test-function factors outside inner() are conjugated in complex mode
    spec = {"kind": "form", "cell": cell, "gdim": gdim, "cdeg": cdeg, "elements": [P], "args": [0, 0], "coefs": [], "consts": [], "integrals": []}
    md = {"quadrature_degree": draw(st.integers(max(1, deg), 2 * deg + 1))} if draw(st.booleans()) else {}

    def add(m, e, sid=None, md_=None):
        spec["integrals"].append({"m": m, "id": sid, "md": dict(md if md_ is None else md_), "e": e})

    if name == "mass":
        add("dx", ["inner", u, v])
    elif name == "stiffness":
        add("dx", ["inner", ["grad", u], ["grad", v]])
    elif name == "helmholtz-coefficient":
        spec["elements"].append(["el", "P", 1, {}])
        spec["coefs"] = [1]
        spec["consts"] = [[]]
        add("dx", ["sub", ["mul", ["add", ["lit", 1.0], ["mul", f, f]], ["inner", ["grad", u], ["grad", v]]], ["mul", ["c", 0], ["inner", u, v]]])
    elif name == "elasticity":
        spec["elements"] = [vecP]
        eps_u, eps_v = ["sym", ["grad", u]], ["sym", ["grad", v]]
        add("dx", ["add", ["mul", ["lit", 2.0], ["inner", eps_u, eps_v]], ["mul", ["lit", 0.5], ["mul", ["div", u], cj(["div", v])]]])
    elif name == "convection":
        spec["elements"] = [P, vecP]
        spec["coefs"] = [1]
        add("dx", ["mul", ["dot", f, ["grad", u]], cj(v)])
    elif name == "hyperelastic-derivative":
        spec["elements"] = [vecP]
        spec["args"] = [0]
        spec["coefs"] = [0]
        F_ = ["add", ["raw", f"ufl.Identity({gdim})"], ["grad", f]]
        C_ = ["dot", ["T", F_], F_]
        J_ = ["det", F_]
        psi = ["add", ["mul", ["lit", 0.5], ["sub", ["tr", C_], ["lit", float(gdim)]]], ["mul", ["lit", 0.25], ["pow", ["sub", J_, ["lit", 1.0]], ["lit", 2]]]]
        spec["integrals"].append({"m": "dx", "id": None, "md": {"quadrature_degree": min(2 * deg + 1, 4)}, "e": ["mul", psi, ["lit", 1.0]]})
        # energy functional -> residual by differentiation w.r.t. f0 (arity 0 functional compiled through `derivative`)
        spec["args"] = []
        spec["transform"] = ["derivative", 0]
    elif name == "coefficient-product":
        # several coefficients with different numbers of dofs in one integral (their evaluation loops have different extents)
        pool = [["el", "P", 1, {}], ["el", "P", 2, {}], ["el", "P", 0, {"dc": True}], ["el", "P", 1, {"shape": [gdim]}], ["el", "P", 1, {"dc": True}]]
        if tdim < 3:
            pool.append(["el", "P", 3, {}])
        k = draw(st.integers(3, 4))
        chosen = draw(st.permutations(pool))[:k]
        spec["elements"] = [P] + chosen
        spec["args"] = [0] if draw(st.booleans()) else [0, 0]
        spec["coefs"] = list(range(1, k + 1))
        prod = None
        for j, E in enumerate(chosen):
            fj = ["f", j] if not E[3].get("shape") else ["idx", ["f", j], draw(st.integers(0, gdim - 1))]
            prod = fj if prod is None else ["mul", prod, fj]
        add("dx", ["mul", prod, cj(v)] if len(spec["args"]) == 1 else ["mul", prod, ["inner", u, v]])
    elif name == "mixed-poisson":
        rt = draw(st.sampled_from(["RT", "BDM"]))
        spec["elements"] = [["mixed", [["el", rt, deg if deg < 3 else 2, {}], ["el", "P", max((deg if deg < 3 else 2) - 1, 0), {"dc": True}]]]]
        s_, p_ = ["split", u, 0], ["split", u, 1]
        t_, q_ = ["split", v, 0], ["split", v, 1]
        add("dx", ["add", ["add", ["inner", s_, t_], ["mul", cj(["div", t_]), p_]], ["mul", ["div", s_], cj(q_)]])
    elif name == "curl-curl":
        spec["elements"] = [["el", "N1curl", min(deg, 2), {}]]
        add("dx", ["add", ["inner", ["curl", u], ["curl", v]], ["inner", u, v]])
    elif name == "stokes":
        spec["elements"] = [["mixed", [["el", "P", 2, {"shape": [gdim]}], ["el", "P", 1, {}]]]]
        uu, pp, vv, qq = ["split", u, 0], ["split", u, 1], ["split", v, 0], ["split", v, 1]
        add("dx", ["sub", ["sub", ["inner", ["grad", uu], ["grad", vv]], ["mul", cj(["div", vv]), pp]], ["mul", cj(qq), ["div", uu]]])
    elif name == "dg-avg-avg":
        add("dS", ["mul", ["avg", u], cj(["avg", v])])
    elif name == "dg-jump-jump":
        add("dS", ["mul", ["jump", u], cj(["jump", v])])
    elif name == "dg-interior-penalty":
        ju, jv = ["jumpn", u], ["jumpn", v]
        add("dS", ["add", ["sub", ["neg", ["inner", ["avg", ["grad", u]], jv]], ["inner", ju, ["avg", ["grad", v]]]],
                   ["mul", ["lit", 4.0], ["mul", ["jump", u], cj(["jump", v])]]])
        if draw(st.booleans()):
            add("dx", ["inner", ["grad", u], ["grad", v]])
    elif name == "dg-upwind":
        spec["elements"] = [P, vecP]
        spec["coefs"] = [1]
        bn = ["dot", ["+", f], _n("+")]
        up = ["mul", ["lit", 0.5], ["add", bn, ["abs", bn]]]
        add("dS", ["mul", ["mul", up, ["sub", ["+", u], ["-", u]]], ["jump", v]])
    elif name == "helmholtz-impedance":
        # complex Helmholtz with an impedance boundary term:  (grad u, grad v) - k^2 (u, v) - i k <u, v>_ds
        kk = draw(st.sampled_from([0.5, 2.5, 3.0]))
        add("dx", ["sub", ["inner", ["grad", u], ["grad", v]], ["mul", ["lit", kk * kk], ["inner", u, v]]])
        add("ds", ["inner", ["mul", ["clit", 0.0, -kk], u], v], sid=draw(st.sampled_from([None, 1])), md_={} if cell == "interval" else None)
    elif name == "complex-vertex-mass":
        spec["elements"] = [["el", "P", deg, {}]]
        z = ["clit", draw(st.sampled_from([0.0, 0.5, -1.5])), draw(st.sampled_from([2.0, -0.7, 1.1]))]
        side = draw(st.booleans())
        add("dP", ["inner", ["mul", z, u], v] if side else ["inner", u, ["mul", z, v]], md_={})
    elif name == "nitsche-boundary":
        add("ds", ["add", ["sub", ["neg", ["mul", ["dot", ["grad", u], _n()], cj(v)]], ["mul", cj(["dot", ["grad", v], _n()]), u]], ["mul", ["lit", 10.0], ["mul", u, cj(v)]]],
            sid=draw(st.sampled_from([None, 1])))
    elif name == "facet-normal-flux":
        spec["elements"] = [P, vecP]
        spec["args"] = [0]
        spec["coefs"] = [1]
        add("ds", ["mul", ["dot", f, _n()], cj(v)])
    # optional scalar coefficient factor on every integral
    if name in ("mass", "stiffness", "dg-avg-avg", "dg-jump-jump", "curl-curl") and draw(st.booleans()):
        spec["elements"].append(["el", "P", 1, {}])
        spec["coefs"] = [len(spec["elements"]) - 1]
        for I in spec["integrals"]:
            k = ["f", 0] if I["m"] != "dS" else ["+", ["f", 0]]
            I["e"] = ["mul", ["add", ["lit", 1.5], ["mul", k, k]], I["e"]]
    spec["_tags"] = ["template"]
    spec["_features"] = ["template:" + name]
    spec["data_seed"] = draw(st.integers(0, 2**31 - 1))
    return spec


def forms(profile=None, grammar=3, templates=1):
    """Grammar-generated forms with a share of template instances (same profile: measures, cells, maxdeg, nonaffine)."""
    pr = dict(DEFAULT_PROFILE)
    pr.update(profile or {})
    if not any(m in pr["measures"] or m == "dx" and "dx" in pr["measures"] for m in TEMPLATES.values()) or pr.get("tp"):
        return form_specs(profile)
    tpl_profile = dict(profile or {})
    return st.one_of(*([form_specs(profile)] * grammar + [template_specs(tpl_profile)] * templates))
