"""Command line: ``python -m vf check C01 [--tier quick|thorough]`` / ``python -m vf replay <file>``."""

from __future__ import annotations

import argparse
import importlib
import json
import os
import sys
import traceback


def main(argv=None) -> int:
    os.environ.setdefault("PYTHONHASHSEED", "0")
    for v in ("OMP_NUM_THREADS", "OPENBLAS_NUM_THREADS", "MKL_NUM_THREADS"):
        os.environ.setdefault(v, "1")
    ap = argparse.ArgumentParser(prog="vf")
    sub = ap.add_subparsers(dest="cmd", required=True)
    c = sub.add_parser("check")
    c.add_argument("prop")
    c.add_argument("--tier", default=None)
    r = sub.add_parser("replay")
    r.add_argument("path")
    args = ap.parse_args(argv)

    from . import common

    try:
        common.assert_repo_under_test()
        if args.cmd == "check":
            mod = importlib.import_module(f"vf.checks.{args.prop.lower()}")
            return int(mod.run(common.tier_arg(args.tier)))
        if args.cmd == "replay":
            doc = json.loads(open(args.path).read())
            mod = importlib.import_module(f"vf.checks.{doc['property'].lower()}")
            return int(mod.replay(doc))
    except SystemExit:
        raise
    except BaseException:
        print("HARNESS-ERROR: " + traceback.format_exc())
        return 2
    return 2


if __name__ == "__main__":
    sys.exit(main())
