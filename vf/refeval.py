"""Independent reference evaluator for UFCx kernels (DESIGN.md section 3.3).

Trusted base: UFL's symbolic preprocessing (``compute_form_data``) and basix tabulation/quadrature/
reference geometry.  Nothing from ``ffcx.*`` is imported here.

The lowered scalar integrand is interpreted node by node on numpy arrays of shape
``[point, test dof, trial dof]`` (broadcastable).  Every value carries a first-order running error
bound (class EV) so that the acceptance tolerance is derived from the computation itself instead of a
fixed relative tolerance.
"""

from __future__ import annotations

import math

import basix
import basix.ufl
import numpy as np
import ufl
import ufl.algorithms
from ufl.classes import (
    Abs,
    Argument,
    CellEdgeVectors,
    CellFacetJacobian,
    CellOrientation,
    CellRidgeJacobian,
    CellVertices,
    Coefficient,
    ComponentTensor,
    Conditional,
    Conj,
    Constant,
    Division,
    FacetEdgeVectors,
    FacetOrientation,
    FixedIndex,
    Identity,
    Imag,
    Indexed,
    IndexSum,
    Jacobian,
    ListTensor,
    MathFunction,
    MaxValue,
    MinValue,
    Power,
    Product,
    QuadratureWeight,
    Real,
    ReferenceCellEdgeVectors,
    ReferenceCellVolume,
    ReferenceFacetEdgeVectors,
    ReferenceFacetVolume,
    ReferenceGrad,
    ReferenceNormal,
    ReferenceValue,
    Restricted,
    ScalarValue,
    SpatialCoordinate,
    Sum,
    Variable,
    Zero,
)

CT = {
    n: getattr(basix.CellType, n)
    for n in ["point", "interval", "triangle", "quadrilateral", "tetrahedron", "hexahedron", "prism", "pyramid"]
}
CT["vertex"] = basix.CellType.point


class Unsupported(Exception):
    """The reference evaluator cannot evaluate this construct (case is inconclusive)."""


class Unstable(Exception):
    """The inputs make the result tie-sensitive (e.g. a condition within rounding of its boundary)."""


# ---------------------------------------------------------------------------------------
# values with running error bounds
# ---------------------------------------------------------------------------------------


class Tol:
    """Error model parameters: unit round-off of the scalar type and table tolerances."""

    def __init__(self, scalar_type="float64", table_rtol=1e-6, table_atol=1e-9):
        real = np.dtype(scalar_type).type(0).real.dtype
        self.u = float(np.finfo(real).eps)  # 2*unit roundoff; generous on purpose
        # FFCx clamps with the configured tolerances and merges/classifies tables with its built-in
        # defaults (1e-6/1e-9); either may legitimately perturb a table value.
        self.rtol = 2.0 * max(float(table_rtol), 1e-6)
        self.atol = 2.0 * max(float(table_atol), 1e-9)
        self.margin = 16.0  # safety factor for tie detection


class EV:
    """Value array `v`, absolute error bound `e` and magnitude `m` (same broadcast shape).

    `m` is the value the expression would have with every leaf replaced by its absolute value (sum of |terms| for sums,
    product of magnitudes for products).  Rounding errors are charged at `m`, not at `|v|`: the compiler under test may
    associate sums differently and may distribute products over sums (argument factorisation does), and then its intermediate
    values are as large as the terms even where the mathematical value cancels (e.g. sym(grad(u))[1,0] * curl(v)[1] for RT1:
    both factors vanish identically, the expanded double sum only cancels to rounding).
    """

    __slots__ = ("v", "e", "m")

    def __init__(self, v, e, m=None):
        self.v = v
        self.e = e
        self.m = np.abs(v) if m is None else m


def _arr(x):
    return x if isinstance(x, np.ndarray) else np.asarray(x).reshape(1, 1, 1)


class Interp:
    def __init__(self, ctx, tol: Tol):
        self.ctx = ctx
        self.tol = tol
        self.memo: dict = {}
        self.u = tol.u

    # leaf constructors
    def exact(self, v):
        v = _arr(np.asarray(v))
        return EV(v, np.zeros(v.shape))

    def data(self, v):  # input data / computed geometry: representation error
        v = _arr(np.asarray(v))
        return EV(v, self.u * np.abs(v))

    def table(self, v):  # element table values: clamping / merging tolerances apply
        v = _arr(np.asarray(v))
        a = np.abs(v)
        return EV(v, a * (self.u + self.tol.rtol) + self.tol.atol)

    # arithmetic
    def add(self, a, b):
        v = a.v + b.v
        # charged at the magnitude of the operands, not of the (possibly cancelling) result: the kernel may associate a
        # sum differently, and then its intermediate values are as large as the operands (see DESIGN.md, Corrections)
        m = a.m + b.m
        return EV(v, a.e + b.e + self.u * m, m)

    def mul(self, a, b):
        v = a.v * b.v
        m = a.m * b.m
        return EV(v, a.e * b.m + a.m * b.e + a.e * b.e + self.u * m, m)

    def div(self, a, b):
        with np.errstate(all="ignore"):
            v = a.v / b.v
            ab = np.abs(b.v)
            if np.any(ab <= self.tol.margin * b.e):
                raise Unstable("division by a value within its error of zero")
            m = a.m / ab
            e = a.e / ab + a.m * b.e / (ab * ab) + self.u * m
        return EV(v, e, m)

    def func(self, a, f, df, ulps=4.0):
        with np.errstate(all="ignore"):
            v = f(a.v)
            d = np.abs(df(a.v))
        if not (np.all(np.isfinite(v)) and np.all(np.isfinite(d))):
            raise Unstable("math function evaluated outside its smooth domain")
        return EV(v, d * a.e + ulps * self.u * np.abs(v))


_SQRT_PI = math.sqrt(math.pi)
_erf = np.vectorize(math.erf, otypes=[float])

def _bessel(kind, n, x):
    """J_n / Y_n for integer n on a real array, via mpmath (30 digits, rounded to double)."""
    import mpmath

    fn = mpmath.besselj if kind == "j" else mpmath.bessely
    with mpmath.workdps(30):
        return np.vectorize(lambda t: float(fn(n, mpmath.mpf(float(t)))), otypes=[float])(np.asarray(x, dtype=float))


_FUNCS = {
    "sqrt": (np.sqrt, lambda x: 0.5 / np.sqrt(x)),
    "exp": (np.exp, np.exp),
    "ln": (np.log, lambda x: 1.0 / x),
    "cos": (np.cos, np.sin),
    "sin": (np.sin, np.cos),
    "tan": (np.tan, lambda x: 1.0 / np.cos(x) ** 2),
    "cosh": (np.cosh, np.sinh),
    "sinh": (np.sinh, np.cosh),
    "tanh": (np.tanh, lambda x: 1.0 / np.cosh(x) ** 2),
    "acos": (np.arccos, lambda x: 1.0 / np.sqrt(1 - x * x)),
    "asin": (np.arcsin, lambda x: 1.0 / np.sqrt(1 - x * x)),
    "atan": (np.arctan, lambda x: 1.0 / (1 + x * x)),
    "erf": (lambda x: _erf(np.real(x)), lambda x: 2.0 / _SQRT_PI * np.exp(-np.real(x) ** 2)),
}


# ---------------------------------------------------------------------------------------
# element tabulation, assembled by hand from basix (not through ffcx.element_interface)
# ---------------------------------------------------------------------------------------


def tabulate(element, X, nd):
    """Return array [derivative index][point][dof][reference value component]."""
    X = np.asarray(X, dtype=np.float64)
    name = type(element).__name__
    if name == "_BlockedElement":
        sub = tabulate(element._sub_element, X, nd)  # (D, P, n, 1)
        if sub.shape[3] != 1:
            raise Unsupported("blocked element of non-scalar sub-element")
        bs = element._block_size
        n = sub.shape[2]
        out = np.zeros((sub.shape[0], sub.shape[1], n * bs, bs))
        for c in range(bs):
            out[:, :, c::bs, c] = sub[:, :, :, 0]
        return out
    if name == "_MixedElement":
        subs = [tabulate(e, X, nd) for e in element._sub_elements]
        D, P = subs[0].shape[:2]
        N = sum(s.shape[2] for s in subs)
        V = sum(s.shape[3] for s in subs)
        out = np.zeros((D, P, N, V))
        d0 = v0 = 0
        for s in subs:
            out[:, :, d0 : d0 + s.shape[2], v0 : v0 + s.shape[3]] = s
            d0 += s.shape[2]
            v0 += s.shape[3]
        return out
    if name == "_BasixElement":
        return np.asarray(element._element.tabulate(nd, X))
    if name == "_QuadratureElement":
        pts = np.asarray(element._points)
        if X.shape != pts.shape or not np.allclose(X, pts, atol=1e-13):
            raise Unsupported("quadrature element evaluated away from its own points")
        P = pts.shape[0]
        tdim = X.shape[1]
        D = math.comb(nd + tdim, tdim)
        out = np.zeros((D, P, P, 1))
        out[0, :, :, 0] = np.eye(P)
        if nd > 0:
            raise Unsupported("derivative of quadrature element")
        return out
    if name == "_RealElement":
        P = X.shape[0]
        tdim = X.shape[1]
        D = math.comb(nd + tdim, tdim) if tdim > 0 else 1
        vs = int(np.prod(element.reference_value_shape)) if element.reference_value_shape else 1
        out = np.zeros((D, P, vs, vs))
        out[0, :, :, :] = np.eye(vs)[None, :, :]
        return out
    raise Unsupported(f"element wrapper {name}")


def scalar_coordinate_element(domain):
    cel = domain.ufl_coordinate_element()
    if type(cel).__name__ != "_BlockedElement":
        raise Unsupported("coordinate element is not a blocked element")
    return cel._sub_element


# ---------------------------------------------------------------------------------------
# reference geometry from basix
# ---------------------------------------------------------------------------------------


def sub_entity_vertices(cellname, dim, index):
    geom = np.asarray(basix.geometry(CT[cellname]))
    topo = basix.topology(CT[cellname])
    return geom[topo[dim][index]]


def sub_entity_type(cellname, dim, index):
    return basix.cell.subentity_types(CT[cellname])[dim][index]


def map_to_sub_entity(cellname, dim, index, Xe):
    """Map points of the reference sub-entity (dimension `dim`) into the reference cell."""
    v = sub_entity_vertices(cellname, dim, index)
    Xe = np.asarray(Xe, dtype=np.float64)
    if dim == 0:
        return np.tile(v[0], (max(Xe.shape[0], 1), 1))
    # affine/multilinear map spanned by the first vertex and the axes v[1]-v[0], v[2]-v[0]
    # (for quadrilateral facets basix orders vertices so that this is the usual bilinear map
    # restricted to a parallelogram -- reference facets are parallelograms)
    out = np.tile(v[0], (Xe.shape[0], 1)).astype(np.float64)
    for k in range(dim):
        out = out + np.outer(Xe[:, k], v[k + 1] - v[0])
    return out


def reference_facet_jacobian(cellname, facet):
    tdim = len(basix.topology(CT[cellname])) - 1
    v = sub_entity_vertices(cellname, tdim - 1, facet)
    return np.array([v[k + 1] - v[0] for k in range(tdim - 1)]).T  # (tdim, tdim-1)


def reference_ridge_jacobian(cellname, ridge):
    tdim = len(basix.topology(CT[cellname])) - 1
    v = sub_entity_vertices(cellname, tdim - 2, ridge)
    return np.array([v[k + 1] - v[0] for k in range(tdim - 2)]).T.reshape(tdim, max(tdim - 2, 0))


def reference_facet_normal(cellname, facet):
    return np.asarray(basix.cell.facet_outward_normals(CT[cellname]))[facet]


def reference_volume(celltype):
    return float(basix.cell.volume(celltype))


# ---------------------------------------------------------------------------------------
# the interpreter
# ---------------------------------------------------------------------------------------


class Ctx:
    """Evaluation context of one integral on one entity.

    X[r]        reference points in cell r (r = 0 '+', 1 '-')            (P, tdim)
    x[r]        physical coordinates of the coordinate nodes of cell r    (nodes, gdim)
    w[coef]     list per restriction of dof arrays (original coefficient objects as keys)
    c[const]    flat value arrays
    weights     quadrature weights (P,)
    entity[r]   local entity index on cell r
    width       1, or 2 for interior facets
    """

    def __init__(self):
        self.X = None
        self.x = None
        self.w = {}
        self.c = {}
        self.weights = None
        self.entity = (0, 0)
        self.width = 1
        self.itype = "cell"
        self.argdims = ()
        self.complex = False


def _peel(e):
    """Peel a modified terminal: returns (terminal, component, local derivatives, restriction)."""
    t = e
    comp = None
    ld: list[int] = []
    restr = None
    while not t._ufl_is_terminal_:
        if isinstance(t, Indexed):
            t, mi = t.ufl_operands
            if comp is not None:
                raise Unsupported("nested indexing in modified terminal")
            comp = [int(i) for i in mi]
        elif isinstance(t, ReferenceValue):
            (t,) = t.ufl_operands
        elif isinstance(t, ReferenceGrad):
            (t,) = t.ufl_operands
            if not comp:
                raise Unsupported("unindexed ReferenceGrad")
            ld.append(comp[-1])
            comp = comp[:-1]
        elif isinstance(t, Restricted):
            if restr is not None and restr != t._side:
                raise Unsupported("conflicting restrictions")
            restr = t._side
            (t,) = t.ufl_operands
        else:
            raise Unsupported(f"modifier {type(t).__name__}")
    return t, tuple(comp or ()), ld, restr


def _is_mt(e):
    while not e._ufl_is_terminal_:
        if isinstance(e, (ReferenceValue, ReferenceGrad, Restricted)):
            e = e.ufl_operands[0]
        else:
            return False
    return not isinstance(e, (ScalarValue, Zero, Identity, ufl.classes.MultiIndex))


def evaluate(expr, ctx: Ctx, tol: Tol, comp=()) -> EV:
    """Evaluate component `comp` of a lowered UFL expression at ctx's points -> EV of shape [P,I,J]."""
    it = Interp(ctx, tol)
    memo = it.memo

    def domain_of(t):
        return ufl.domain.extract_unique_domain(t)

    def term(e):
        t, comp, ld, restr = _peel(e)
        r = {"+": 0, "-": 1, None: 0}[restr]
        X = ctx.X[r]
        P = X.shape[0]
        tdim = X.shape[1]

        def pts(a):
            return np.asarray(a).reshape(P, 1, 1)

        if isinstance(t, (Argument, Coefficient)):
            el = t.ufl_function_space().ufl_element()
            counts = tuple(ld.count(i) for i in range(tdim))
            T = tabulate(el, X, len(ld))[basix.index(*counts) if tdim > 0 else 0]  # (P, n, V)
            shape = el.reference_value_shape
            fc = int(np.ravel_multi_index(comp, shape)) if shape else 0
            vals = T[:, :, fc]
            n = vals.shape[1]
            if isinstance(t, Argument):
                full = np.zeros((P, ctx.width * n))
                full[:, r * n : (r + 1) * n] = vals
                tv = it.table(full[:, :, None] if t.number() == 0 else full[:, None, :])
                # structural zeros of the macro element carry no error
                tv.e = np.where(tv.v == 0.0, np.minimum(tv.e, tol.atol), tv.e)
                return tv
            w = ctx.w[t][r] if ctx.width == 2 else ctx.w[t][0]
            w = np.asarray(w)
            if w.shape[0] != n:
                raise Unsupported(f"coefficient data has {w.shape[0]} dofs, element has {n}")
            tv = it.table(vals)  # (P, n)
            v = tv.v @ w
            # a dot product of n terms accumulated in working precision: worst case n*u*sum|terms| in any order
            mag = np.abs(tv.v) @ np.abs(w)
            e = tv.e @ np.abs(w) + n * it.u * mag
            return EV(pts(v), pts(e), pts(mag))
        if isinstance(t, Constant):
            fc = int(np.ravel_multi_index(comp, t.ufl_shape)) if t.ufl_shape else 0
            return it.data(np.full((P, 1, 1), ctx.c[t][fc]))
        if isinstance(t, (Jacobian, SpatialCoordinate)):
            cel = scalar_coordinate_element(domain_of(t))
            if isinstance(t, Jacobian):
                i, d = comp
                dd = [d] + ld
            else:
                (i,) = comp
                dd = ld
            counts = tuple(dd.count(k) for k in range(tdim))
            if tdim == 0:
                raise Unsupported("geometry on a point cell")
            T = tabulate(cel, X, len(dd))[basix.index(*counts)][:, :, 0]  # (P, nodes)
            xs = np.asarray(ctx.x[r])[:, i]
            v = T @ xs
            mag = np.abs(T) @ np.abs(xs)
            # the coordinate element's tables are clamped / merged with the table tolerances like any other table
            e = it.u * mag * (T.shape[1] + 1.0) + (tol.rtol * np.abs(T) + tol.atol) @ np.abs(xs)
            return EV(pts(v), pts(e), pts(mag))
        if isinstance(t, QuadratureWeight):
            return it.data(pts(ctx.weights))
        if isinstance(t, (ScalarValue,)):
            return it.exact(t._value)
        dom = domain_of(t)
        cellname = dom.ufl_cell().cellname
        tdimc = dom.topological_dimension
        if ld:
            raise Unsupported(f"derivative of {type(t).__name__}")
        if isinstance(t, ReferenceCellVolume):
            return it.data(np.full((P, 1, 1), reference_volume(CT[cellname])))
        if isinstance(t, ReferenceFacetVolume):
            ft = sub_entity_type(cellname, tdimc - 1, ctx.entity[r])
            return it.data(np.full((P, 1, 1), reference_volume(ft)))
        if isinstance(t, ReferenceNormal):
            return it.data(np.full((P, 1, 1), reference_facet_normal(cellname, ctx.entity[r])[comp[0]]))
        if isinstance(t, CellFacetJacobian):
            return it.data(np.full((P, 1, 1), reference_facet_jacobian(cellname, ctx.entity[r])[comp[0], comp[1]]))
        if isinstance(t, CellRidgeJacobian):
            return it.data(np.full((P, 1, 1), reference_ridge_jacobian(cellname, ctx.entity[r])[comp[0], comp[1]]))
        if isinstance(t, CellOrientation):
            return it.exact(np.ones((P, 1, 1)))
        if isinstance(t, CellVertices):
            cel = scalar_coordinate_element(dom)
            V = np.asarray(basix.geometry(CT[cellname]))
            T = tabulate(cel, V, 0)[0][:, :, 0]  # (nverts, nodes)
            val = T[comp[0]] @ np.asarray(ctx.x[r])[:, comp[1]]
            return it.data(np.full((P, 1, 1), val))
        if isinstance(t, (CellEdgeVectors, ReferenceCellEdgeVectors)):
            topo = basix.topology(CT[cellname])
            v0, v1 = topo[1][comp[0]]
            V = np.asarray(basix.geometry(CT[cellname]))
            if isinstance(t, ReferenceCellEdgeVectors):
                return it.data(np.full((P, 1, 1), (V[v1] - V[v0])[comp[1]]))
            cel = scalar_coordinate_element(dom)
            T = tabulate(cel, V, 0)[0][:, :, 0]
            xs = np.asarray(ctx.x[r])[:, comp[1]]
            return it.data(np.full((P, 1, 1), T[v1] @ xs - T[v0] @ xs))
        if isinstance(t, (FacetEdgeVectors, ReferenceFacetEdgeVectors)):
            topo = basix.topology(CT[cellname])
            conn = basix.cell.sub_entity_connectivity(CT[cellname])
            facet = ctx.entity[r]
            edges = conn[tdimc - 1][facet][1]
            v0, v1 = topo[1][edges[comp[0]]]
            V = np.asarray(basix.geometry(CT[cellname]))
            if isinstance(t, ReferenceFacetEdgeVectors):
                return it.data(np.full((P, 1, 1), (V[v1] - V[v0])[comp[1]]))
            cel = scalar_coordinate_element(dom)
            T = tabulate(cel, V, 0)[0][:, :, 0]
            xs = np.asarray(ctx.x[r])[:, comp[1]]
            return it.data(np.full((P, 1, 1), T[v1] @ xs - T[v0] @ xs))
        if isinstance(t, FacetOrientation):
            raise Unsupported("FacetOrientation")
        raise Unsupported(f"terminal {type(t).__name__}")

    def ev(e, comp, env):
        fi = tuple((k, env[k]) for k in sorted(e.ufl_free_indices))
        key = (id(e), comp, fi)
        r = memo.get(key)
        if r is None:
            r = ev_(e, comp, env)
            memo[key] = r
        return r

    def cond(e, env):
        ops = e.ufl_operands
        if isinstance(e, ufl.classes.NotCondition):
            return np.logical_not(cond(ops[0], env))
        name = e._name
        if name in ("&&", "||"):
            a, b = cond(ops[0], env), cond(ops[1], env)
            return np.logical_and(a, b) if name == "&&" else np.logical_or(a, b)
        a, b = ev(ops[0], (), env), ev(ops[1], (), env)
        av, bv = a.v, b.v
        if ctx.complex:
            if np.any(np.abs(np.imag(av)) > 0) or np.any(np.abs(np.imag(bv)) > 0):
                if name not in ("==", "!="):
                    raise Unsupported("ordering comparison of complex values")
            else:
                av, bv = np.real(av), np.real(bv)
        margin = np.abs(av - bv)
        if np.any(margin <= tol.margin * (a.e + b.e) + 1e-300):
            raise Unstable(f"condition {name} within rounding of its boundary")
        return {
            "<": np.less,
            ">": np.greater,
            "<=": np.less_equal,
            ">=": np.greater_equal,
            "==": np.equal,
            "!=": np.not_equal,
        }[name](av, bv)

    def ev_(e, comp, env):
        if isinstance(e, Zero):
            return it.exact(0.0)
        if isinstance(e, ScalarValue):
            return it.exact(e._value)
        if isinstance(e, Identity):
            return it.exact(1.0 if comp[0] == comp[1] else 0.0)
        if isinstance(e, Indexed):
            A, mi = e.ufl_operands
            idx = tuple(int(i) if isinstance(i, FixedIndex) else env[i.count()] for i in mi)
            if _is_mt(A):
                return term(A[idx])
            return ev(A, idx, env)
        if _is_mt(e):
            return term(e[comp] if comp else e)
        if isinstance(e, ListTensor):
            return ev(e.ufl_operands[comp[0]], comp[1:], env)
        if isinstance(e, ComponentTensor):
            A, mi = e.ufl_operands
            env2 = dict(env)
            env2.update({i.count(): c for i, c in zip(mi, comp)})
            return ev(A, (), env2)
        if isinstance(e, IndexSum):
            A, mi = e.ufl_operands
            i = mi[0]
            tot = None
            for k in range(e.dimension()):
                env2 = dict(env)
                env2[i.count()] = k
                term_k = ev(A, comp, env2)
                tot = term_k if tot is None else it.add(tot, term_k)
            return tot
        if isinstance(e, Variable):
            return ev(e.ufl_operands[0], comp, env)
        ops = e.ufl_operands
        if isinstance(e, Sum):
            return it.add(ev(ops[0], comp, env), ev(ops[1], comp, env))
        if isinstance(e, Product):
            return it.mul(ev(ops[0], (), env), ev(ops[1], (), env))
        if isinstance(e, Division):
            return it.div(ev(ops[0], comp, env), ev(ops[1], (), env))
        if isinstance(e, Power):
            a, b = ev(ops[0], (), env), ev(ops[1], (), env)
            if isinstance(ops[1], ScalarValue) and float(np.real(ops[1]._value)) == int(np.real(ops[1]._value)):
                p = int(np.real(ops[1]._value))
                if p >= 0:
                    r = it.func(a, lambda x: x**p, lambda x: p * x ** (p - 1) if p else 0 * x, ulps=2.0 * max(p, 1))
                    if p >= 2:  # may be evaluated as a repeated product of a (possibly cancelling) sum
                        mp = a.m**p
                        r = EV(r.v, r.e + p * a.e * a.m ** (p - 1) + 2.0 * p * it.u * mp, mp)
                    return r
                if np.any(np.abs(a.v) <= tol.margin * a.e):
                    raise Unstable("negative power of a value within its error of zero")
                return it.func(a, lambda x: x ** float(p), lambda x: p * x ** float(p - 1), ulps=2.0 * abs(p) + 2)
            # general power: a**b = exp(b ln a); a must be positive (real) for a stable principal value
            av = a.v
            if not ctx.complex or np.all(np.imag(av) == 0):
                if np.any(np.real(av) <= tol.margin * a.e):
                    raise Unstable("general power of a non-positive base")
            with np.errstate(all="ignore"):
                v = np.power(a.v.astype(complex) if ctx.complex else a.v, b.v)
                da = np.abs(b.v * v / a.v)
                db = np.abs(np.log(a.v.astype(complex) if ctx.complex else a.v) * v)
            if not np.all(np.isfinite(v)):
                raise Unstable("power overflow")
            return EV(v, da * a.e + db * b.e + 8 * it.u * np.abs(v))
        if isinstance(e, Abs):
            a = ev(ops[0], (), env)
            return EV(np.abs(a.v), a.e + it.u * np.abs(a.v), a.m)
        if isinstance(e, Conj):
            a = ev(ops[0], comp, env)
            return EV(np.conj(a.v), a.e, a.m)
        if isinstance(e, Real):
            a = ev(ops[0], comp, env)
            return EV(np.real(a.v) + 0.0, a.e, a.m)
        if isinstance(e, Imag):
            a = ev(ops[0], comp, env)
            return EV(np.imag(a.v) + 0.0, a.e, a.m)
        if isinstance(e, MathFunction):
            a = ev(ops[0], (), env)
            if e._name not in _FUNCS:
                raise Unsupported(f"math function {e._name}")
            f, df = _FUNCS[e._name]
            if e._name == "erf" and ctx.complex and np.any(np.imag(a.v) != 0):
                raise Unsupported("erf of complex argument")
            if e._name in ("sqrt", "ln") and (not ctx.complex or np.all(np.imag(a.v) == 0)):
                if np.any(np.real(a.v) <= tol.margin * a.e):
                    raise Unstable(f"{e._name} at/near non-positive argument")
            if e._name in ("acos", "asin") and (not ctx.complex or np.all(np.imag(a.v) == 0)):
                if np.any(1.0 - np.abs(np.real(a.v)) <= tol.margin * a.e):
                    raise Unstable(f"{e._name} at/near +-1")
            return it.func(a, f, df)
        if isinstance(e, ufl.classes.BesselFunction):
            # nu is an integer literal in the generated fragment; C computes jn/yn in double precision
            nu_v = ops[0]
            if not isinstance(nu_v, ScalarValue) or float(nu_v._value) != int(nu_v._value):
                raise Unsupported("Bessel function of non-integer order")
            nu = int(nu_v._value)
            a = ev(ops[1], (), env)
            if ctx.complex and np.any(np.imag(a.v) != 0):
                raise Unsupported("Bessel function of a complex argument")
            kind = {"cyl_bessel_j": "j", "cyl_bessel_y": "y"}.get(e._name)
            if kind is None:
                raise Unsupported(f"Bessel function {e._name}")
            if kind == "y" and np.any(np.real(a.v) <= tol.margin * a.e):
                raise Unstable("Bessel Y at/near a non-positive argument")
            f = lambda x, n=nu: _bessel(kind, n, np.real(x))  # noqa: E731
            df = lambda x, n=nu: 0.5 * (_bessel(kind, n - 1, np.real(x)) - _bessel(kind, n + 1, np.real(x)))  # noqa: E731
            r = it.func(EV(np.real(a.v) + 0.0, a.e), f, df, ulps=16.0)
            # libm's jn/yn are accurate in absolute, not relative, terms near the zeros of the function
            return EV(r.v, r.e + 16.0 * it.u)
        if isinstance(e, ufl.classes.Atan2):
            a, b = ev(ops[0], (), env), ev(ops[1], (), env)
            if ctx.complex and (np.any(np.imag(a.v) != 0) or np.any(np.imag(b.v) != 0)):
                raise Unsupported("atan2 of complex")
            av, bv = np.real(a.v), np.real(b.v)
            r2 = av * av + bv * bv
            if np.any(r2 <= (tol.margin * (a.e + b.e)) ** 2) or np.any((np.abs(av) <= tol.margin * a.e) & (bv < 0)):
                raise Unstable("atan2 near branch cut/origin")
            v = np.arctan2(av, bv)
            return EV(v + 0.0, (np.abs(bv) * a.e + np.abs(av) * b.e) / r2 + 4 * it.u * np.abs(v))
        if isinstance(e, (MinValue, MaxValue)):
            a, b = ev(ops[0], (), env), ev(ops[1], (), env)
            av, bv = np.real(a.v), np.real(b.v)
            v = np.minimum(av, bv) if isinstance(e, MinValue) else np.maximum(av, bv)
            return EV(v + 0.0, np.maximum(a.e, b.e), np.maximum(a.m, b.m))
        if isinstance(e, ufl.classes.Sign) if hasattr(ufl.classes, "Sign") else False:
            a = ev(ops[0], (), env)
            if np.any(np.abs(a.v) <= tol.margin * a.e):
                raise Unstable("sign of a value within its error of zero")
            return it.exact(np.sign(np.real(a.v)))
        if isinstance(e, Conditional):
            c = cond(ops[0], env)
            a, b = ev(ops[1], comp, env), ev(ops[2], comp, env)
            return EV(np.where(c, a.v, b.v), np.where(c, a.e, b.e), np.where(c, a.m, b.m))
        raise Unsupported(f"operator {type(e).__name__}")

    out = ev(expr, tuple(comp), {})
    return out


# ---------------------------------------------------------------------------------------
# forms
# ---------------------------------------------------------------------------------------

_ITYPE_MEASURE = {"cell": "dx", "exterior_facet": "ds", "interior_facet": "dS", "vertex": "dP", "ridge": "dr"}


def compute_form_data(form, scalar_type="float64"):
    cm = np.issubdtype(np.dtype(scalar_type), np.complexfloating)
    from .kernels import time_limit

    with time_limit(150):
        return _compute_form_data(form, cm)


def _compute_form_data(form, cm):
    return ufl.algorithms.compute_form_data(
        form,
        do_apply_function_pullbacks=True,
        do_apply_integral_scaling=True,
        do_apply_geometry_lowering=True,
        preserve_geometry_types=(Jacobian,),
        do_apply_restrictions=True,
        do_append_everywhere_integrals=False,
        complex_mode=cm,
    )


def integral_rule(integral, itype, cellname, entity, argument_elements):
    """Recompute, independently of FFCx, the rule (reference-entity points, weights) of an integral."""
    md = integral.metadata() or {}
    tdim = len(basix.topology(CT[cellname])) - 1
    edim = {"cell": tdim, "exterior_facet": tdim - 1, "interior_facet": tdim - 1, "vertex": 0, "ridge": tdim - 2}[
        itype
    ]
    etype = sub_entity_type(cellname, edim, entity) if edim < tdim else CT[cellname]
    # quadrature elements define the rule
    custom = None
    for e in ufl.algorithms.extract_elements(integral):
        if getattr(e, "has_custom_quadrature", False):
            custom = e.custom_quadrature()
    if custom is not None:
        return np.asarray(custom[0]), np.asarray(custom[1]), etype
    scheme = md.get("quadrature_rule", "default")
    q = md.get("quadrature_degree", -1)
    if not isinstance(q, (int, np.integer)) or q < 0:
        q = int(np.max(md["estimated_polynomial_degree"]))
    if edim == 0:
        return np.zeros((1, 0)), np.ones(1), etype
    if scheme == "vertex":
        pts = np.asarray(basix.geometry(etype))
        wts = np.full(pts.shape[0], reference_volume(etype) / pts.shape[0])
        return pts, wts, etype
    pst = basix.PolysetType.standard
    for e in argument_elements:
        pst = basix.polyset_superset(etype, pst, e.polyset_type)
    pts, wts = basix.make_quadrature(etype, int(q), rule=basix.quadrature.string_to_type(scheme), polyset_type=pst)
    return np.asarray(pts), np.asarray(wts), etype


LAST = {"nacc": 1}  # number of += steps the kernel performs per entry in the last form_reference call


def form_reference(
    form,
    coef_data,
    const_data,
    x,
    itype,
    subdomain_id,
    entity=(0, 0),
    scalar_type="float64",
    tol: Tol | None = None,
    point_perm=None,
    form_data=None,
    diagonal=False,
):
    """Reference element tensor of all integrals of `form` of type `itype` registered for `subdomain_id`.

    coef_data: {coefficient: [dofs_restriction0, dofs_restriction1]}; const_data: {constant: flat values}
    x: [coords_restriction0 (nodes,gdim), coords_restriction1]
    subdomain_id: int, or "otherwise" for the everywhere integral
    point_perm: optional [f0, f1] callables applied to the reference-facet points of each side
    Returns (A, E): value and error-bound arrays.
    """
    tol = tol or Tol(scalar_type)
    fd = form_data or compute_form_data(form, scalar_type)
    cm = np.issubdtype(np.dtype(scalar_type), np.complexfloating)
    width = 2 if itype == "interior_facet" else 1
    dims = [e.dim for e in fd.argument_elements]
    shape = [width * d for d in dims]
    A = np.zeros(shape, dtype=np.complex128 if cm else np.float64)
    E = np.zeros(shape, dtype=np.float64)
    found = False
    nacc = 0
    for itd in fd.integral_data:
        if itd.integral_type != itype:
            continue
        sid = itd.subdomain_id
        ids = sid if isinstance(sid, tuple) else (sid,)
        if subdomain_id not in ids:
            continue
        found = True
        cellname = itd.domain.ufl_cell().cellname
        tdim = itd.domain.topological_dimension
        for itg in itd.integrals:
            pts, wts, etype = integral_rule(itg, itype, cellname, entity[0], fd.argument_elements)
            ctx = Ctx()
            ctx.width = width
            ctx.itype = itype
            ctx.complex = cm
            ctx.entity = entity
            ctx.w = coef_data
            ctx.c = const_data
            ctx.x = x
            ctx.weights = wts
            if itype == "cell":
                ctx.X = [pts]
            else:
                edim = {"exterior_facet": tdim - 1, "interior_facet": tdim - 1, "vertex": 0, "ridge": tdim - 2}[itype]
                Xs = []
                for r in range(width):
                    p = pts if point_perm is None else point_perm[r](pts)
                    Xs.append(map_to_sub_entity(cellname, edim, entity[r], p))
                ctx.X = Xs
            if len(wts) * max(int(np.prod(shape)) if shape else 1, 1) > 3_000_000:
                raise Unsupported("case too large for the reference evaluator (points x entries > 3e6)")
            val = evaluate(itg.integrand(), ctx, tol)
            P = len(wts)
            nacc += P
            full = (P,) + tuple(shape) + (1,) * (2 - len(shape))
            v = np.broadcast_to(val.v, full)
            e = np.broadcast_to(val.e, full)
            A = A + v.sum(axis=0).reshape(shape)
            # accumulation over P quadrature points (any summation order): P*u*sum|terms|
            E = E + e.sum(axis=0).reshape(shape) + P * tol.u * np.abs(v).sum(axis=0).reshape(shape)
    if not found:
        return None, None
    LAST["nacc"] = max(nacc, 1)
    if diagonal and len(shape) == 2:
        A = np.diagonal(A).copy()
        E = np.diagonal(E).copy()
    return A, E


# ---------------------------------------------------------------------------------------
# expressions
# ---------------------------------------------------------------------------------------


def lower_expression(expr, scalar_type="float64"):
    """UFL preprocessing of a point-evaluated expression (algebra, derivatives, pull-backs, geometry)."""
    from ufl.algorithms.apply_algebra_lowering import apply_algebra_lowering
    from ufl.algorithms.apply_derivatives import apply_derivatives
    from ufl.algorithms.apply_function_pullbacks import apply_function_pullbacks
    from ufl.algorithms.apply_geometry_lowering import apply_geometry_lowering
    from ufl.algorithms.remove_complex_nodes import remove_complex_nodes

    keep = (Jacobian,)
    e = apply_algebra_lowering(expr)
    e = apply_derivatives(e)
    e = apply_function_pullbacks(e)
    e = apply_geometry_lowering(e, keep)
    e = apply_derivatives(e)
    e = apply_geometry_lowering(e, keep)
    e = apply_derivatives(e)
    if not np.issubdtype(np.dtype(scalar_type), np.complexfloating):
        e = remove_complex_nodes(e)
    return e


def expression_reference(expr, points, cellname, coef_data, const_data, x, entity=0, on_facet=False, scalar_type="float64",
                         tol: Tol | None = None, point_map=None):
    """Reference values A[point][component][argument dof] (+ error bounds) of a UFL expression.

    points: reference points on the cell, or (on_facet) on the reference facet `entity`;
    point_map: optional symmetry of the reference facet applied to the points first.
    """
    tol = tol or Tol(scalar_type)
    cm = np.issubdtype(np.dtype(scalar_type), np.complexfloating)
    low = lower_expression(expr, scalar_type)
    args = ufl.algorithms.extract_arguments(low)
    if len(args) > 1:
        raise Unsupported("more than one argument")
    ndofs = args[0].ufl_function_space().ufl_element().dim if args else None
    pts = np.asarray(points, dtype=np.float64)
    tdim = len(basix.topology(CT[cellname])) - 1
    ctx = Ctx()
    ctx.width = 1
    ctx.itype = "expression"
    ctx.complex = cm
    ctx.entity = (entity, entity)
    ctx.w = coef_data
    ctx.c = const_data
    ctx.x = x
    ctx.weights = np.ones(pts.shape[0])
    if on_facet:
        p = pts if point_map is None else point_map(pts)
        ctx.X = [map_to_sub_entity(cellname, tdim - 1, entity, p)]
    else:
        ctx.X = [pts]
    shape = tuple(low.ufl_shape)
    ncomp = int(np.prod(shape)) if shape else 1
    P = pts.shape[0]
    full = (P, ncomp) + ((ndofs,) if ndofs is not None else ())
    A = np.zeros(full, dtype=np.complex128 if cm else np.float64)
    E = np.zeros(full)
    for k, comp in enumerate(np.ndindex(*shape) if shape else [()]):
        val = evaluate(low, ctx, tol, comp=comp)
        vv, ee = np.asarray(val.v), np.asarray(val.e)
        if vv.ndim == 3 and vv.shape[2] > 1:  # the argument is a trial function (number 1): dof axis last
            vv = np.transpose(vv, (0, 2, 1))
            ee = np.transpose(np.broadcast_to(ee, val.v.shape), (0, 2, 1))
        v = np.broadcast_to(vv, (P, ndofs if ndofs is not None else 1, 1))[:, :, 0]
        e = np.broadcast_to(ee, (P, ndofs if ndofs is not None else 1, 1))[:, :, 0]
        if ndofs is None:
            A[:, k] = v[:, 0]
            E[:, k] = e[:, 0]
        else:
            A[:, k, :] = v
            E[:, k, :] = e
    return A, E, low
