"""Child process for C14/C15: JIT requests on a shared cache under a harness-owned schedule.

Environment: VF_JOB (path of job JSON), optionally VF_CTRL_R / VF_EVT_W (pipe fds: with them every file-system / time /
compiler primitive touching the cache directory becomes a *sync point* that reports a tag and blocks until the controller
answers 'g' (go) or 'k' (SIGKILL self)).  Results are written to VF_OUT as JSON (and "RESULT" lines on the event pipe).

job = {"cache": dir, "requests": [{"form": name, "options": {...}, "timeout": polls, "inject": null|"codegen"|"visualise",
        "cflags": [...]}], "observe": bool}
"""

import builtins
import importlib.machinery
import io
import json
import logging
import os
import signal
import subprocess
import sys
import time

job = json.loads(open(os.environ["VF_JOB"]).read())
cache = job["cache"]
SYNC = "VF_CTRL_R" in os.environ
if SYNC:
    rfd = int(os.environ["VF_CTRL_R"])
    wfd = int(os.environ["VF_EVT_W"])


def emit(line):
    if SYNC:
        os.write(wfd, (line + "\n").encode())


def sync(tag):
    if not SYNC:
        return
    os.write(wfd, (tag + "\n").encode())
    b = os.read(rfd, 1)
    if b == b"k":
        os.kill(os.getpid(), signal.SIGKILL)


def incache(p):
    return isinstance(p, (str, os.PathLike)) and os.fspath(p).startswith(cache)


def short(p):
    b = os.path.basename(os.fspath(p))
    return b.split(".", 1)[1] if "." in b else b


if SYNC:
    _open = builtins.open

    def open_(file, mode="r", *a, **k):
        if incache(file):
            sync(f"open:{short(file)}:{mode}")
        return _open(file, mode, *a, **k)

    builtins.open = open_
    io.open = open_
    _replace, _rename = os.replace, os.rename

    def replace_(a, b, **k):
        if incache(a):
            sync(f"replace:{short(a)}->{short(b)}")
        return _replace(a, b, **k)

    def rename_(a, b, **k):
        if incache(a):
            sync(f"rename:{short(a)}->{short(b)}")
        return _rename(a, b, **k)

    os.replace, os.rename = replace_, rename_
    _exists = os.path.exists

    def exists_(p):
        if incache(p):
            sync(f"exists:{short(p)}")
        return _exists(p)

    os.path.exists = exists_
    time.sleep = lambda s: sync("sleep")
    _pinit = subprocess.Popen.__init__

    def pinit(self, args, *a, **k):
        if isinstance(args, list) and args and ("gcc" in args[0] or "cc" in os.path.basename(args[0])):
            sync("spawn:" + ("ld" if "-shared" in args else "cc"))
        return _pinit(self, args, *a, **k)

    subprocess.Popen.__init__ = pinit
    _exec = importlib.machinery.ExtensionFileLoader.exec_module

    def exec_(self, module):
        if incache(self.path):
            sync("dlopen")
        return _exec(self, module)

    importlib.machinery.ExtensionFileLoader.exec_module = exec_

import warnings  # noqa: E402

warnings.filterwarnings("ignore")
import basix.ufl  # noqa: E402
import numpy as np  # noqa: E402
import ufl  # noqa: E402

import ffcx.codegeneration.jit as jit  # noqa: E402


def make_form(name):
    if "@" in name:  # the same form requested for another scalar type, e.g. "mass_p1@complex128"
        return make_form(name.split("@")[0])
    if name == "mass_p1_diag":  # the same form requested with part='diagonal' (options differ, not the form)
        form, _, x, _ = make_form("mass_p1")
        return form, (3,), x, 0.25
    if name == "mass_p1":
        el = basix.ufl.element("Lagrange", "triangle", 1)
        dom = ufl.Mesh(basix.ufl.element("Lagrange", "triangle", 1, shape=(2,)))
        V = ufl.FunctionSpace(dom, el)
        u, v = ufl.TrialFunction(V), ufl.TestFunction(V)
        return ufl.inner(u, v) * ufl.dx, (3, 3), np.array([0, 0, 0, 1, 0, 0, 0, 1, 0.0]), 0.5
    if name == "stiff_p1_interval":
        el = basix.ufl.element("Lagrange", "interval", 1)
        dom = ufl.Mesh(basix.ufl.element("Lagrange", "interval", 1, shape=(1,)))
        V = ufl.FunctionSpace(dom, el)
        u, v = ufl.TrialFunction(V), ufl.TestFunction(V)
        return ufl.inner(ufl.grad(u), ufl.grad(v)) * ufl.dx + u * v * ufl.dx, (2, 2), np.array([0, 0, 0, 2.0, 0, 0]), 2.0
    if name == "bad_sumfact":  # FFCx rejects this after the JIT has taken the lock
        el = basix.ufl.element("Lagrange", "triangle", 1)
        dom = ufl.Mesh(basix.ufl.element("Lagrange", "triangle", 1, shape=(2,)))
        V = ufl.FunctionSpace(dom, el)
        v = ufl.TestFunction(V)
        return v * ufl.dx, (3,), np.array([0, 0, 0, 1, 0, 0, 0, 1, 0.0]), 0.5
    raise ValueError(name)


results = []
sync("start")
for rq in job["requests"]:
    form, shape, x, expect_sum = make_form(rq["form"])
    res = {"form": rq["form"]}
    h0 = list(logging.getLogger().handlers)
    so, se = sys.stdout, sys.stderr
    orig_compile = None
    if rq.get("inject") == "codegen":
        import ffcx.compiler

        orig_compile = ffcx.compiler.compile_ufl_objects

        def boom(*a, **k):
            raise getattr(builtins, rq.get("inject_exc", "RuntimeError"))("injected code generation failure")

        ffcx.compiler.compile_ufl_objects = boom
    t0 = time.time()
    try:
        ropts = dict(rq.get("options") or {})
        base, _, stype = rq["form"].partition("@")
        if base.endswith("_diag"):
            ropts["part"] = "diagonal"
        if stype:
            ropts["scalar_type"] = stype
        stype = stype or "float64"
        objs, mod, code = jit.compile_forms([form], options=ropts, cache_dir=cache,
                                            cffi_extra_compile_args=list(rq.get("cflags", ["-O0"])), timeout=int(rq.get("timeout", 50)),
                                            visualise=bool(rq.get("visualise")))
        ffi = mod.ffi
        dt = {"float64": np.float64, "float32": np.float32, "complex128": np.complex128, "complex64": np.complex64}[stype]
        rt = np.float32 if stype in ("float32", "complex64") else np.float64
        ct = {"float64": "double", "float32": "float", "complex128": "double _Complex", "complex64": "float _Complex"}[stype]
        gt = "float" if rt is np.float32 else "double"
        A = np.zeros(int(np.prod(shape)), dtype=dt)
        e = np.zeros(0, dtype=dt)
        xx = np.asarray(x, dtype=rt)
        itg = objs[0].form_integrals[0]
        fn = getattr(itg, "tabulate_tensor_" + stype)
        if fn == ffi.NULL:
            present = [t for t in ("float32", "float64", "complex64", "complex128") if getattr(itg, "tabulate_tensor_" + t) != ffi.NULL]
            res.update(status="ok", compiled=code[1] is not None, total=None, correct=False,
                       note=f"the returned module has no tabulate_tensor_{stype} kernel (present: {present})")
        else:
            fn(ffi.cast(ct + "*", A.ctypes.data), ffi.cast(ct + "*", e.ctypes.data), ffi.cast(ct + "*", e.ctypes.data),
               ffi.cast(gt + "*", xx.ctypes.data), ffi.NULL, ffi.NULL, ffi.NULL)
            tot = complex(A.sum())
            res.update(status="ok", compiled=code[1] is not None, total=float(tot.real),
                       correct=bool(abs(tot - expect_sum) < (1e-5 if rt is np.float32 else 1e-12)))
    except BaseException as ex:  # noqa: BLE001
        res.update(status="exc", exc=type(ex).__name__, msg=str(ex)[:200])
    finally:
        if orig_compile is not None:
            import ffcx.compiler

            ffcx.compiler.compile_ufl_objects = orig_compile
    res["handlers_restored"] = logging.getLogger().handlers == h0
    res["stdout_restored"] = sys.stdout is so and sys.stderr is se
    res["files"] = sorted(short(os.path.join(cache, f)) for f in os.listdir(cache)) if os.path.isdir(cache) else []
    results.append(res)
    emit("RESULT " + json.dumps(res))
if os.environ.get("VF_OUT"):
    with open(os.environ["VF_OUT"], "w") as fh:
        json.dump(results, fh)
