"""Specs: JSON descriptions of UFL forms/expressions; printer to UFL source; builder (= exec of it).

A spec is a plain JSON document so that it can be shrunk by Hypothesis, written to a replay file,
sent to a child process and printed as a UFL file for the command-line compiler (C20).  The
*builder is the printer*: ``build(spec)`` executes exactly the source ``to_source(spec)`` prints,
so there is a single definition of what a spec means.

Spec (form)::

  {"kind": "form", "cell": "triangle", "gdim": 2, "cdeg": 1,
   "elements": [<E>, ...],            # element descriptions
   "args": [ei, ...],                  # element index of test (, trial) function
   "coefs": [ei, ...],                 # element index per coefficient f0, f1, ...
   "consts": [[...shape...], ...],     # c0, c1, ...
   "integrals": [{"m": "dx"|"ds"|"dS"|"dP"|"dr", "id": null|int|[int..],
                  "md": {"quadrature_degree": q, "quadrature_rule": s}, "e": <tree>}, ...],
   "transform": null | ["derivative", k] | ["adjoint"] | ["action", k] | ["lhs"] | ["rhs"],
   "mesh2": [ei, ...],                 # element indices whose function space lives on a second mesh of the same cell type
   "prelude": n}                       # number of unrelated objects created first (C12/C13)

Element descriptions <E>::

  ["el", family, degree, {"shape": [..], "sym": bool, "dc": bool, "lv": str, "dv": str}]
  ["mixed", [<E>, ...]]   ["enriched", [<E>, ...]]   ["real", [shape]]
  ["quad", degree, scheme, [shape]]   ["cquad", [[pts]], [wts], [shape]]   ["tp", degree, [shape]]

Trees are nested lists ``[op, arg, ...]``; see ``_OPS`` and ``_src``.
"""

from __future__ import annotations

import json

TDIM = {
    "interval": 1,
    "triangle": 2,
    "quadrilateral": 2,
    "tetrahedron": 3,
    "hexahedron": 3,
    "prism": 3,
    "pyramid": 3,
}

_UNARY_UFL = {
    "grad": "ufl.grad",
    "div": "ufl.div",
    "curl": "ufl.curl",
    "nabla_grad": "ufl.nabla_grad",
    "nabla_div": "ufl.nabla_div",
    "sym": "ufl.sym",
    "skew": "ufl.skew",
    "tr": "ufl.tr",
    "dev": "ufl.dev",
    "T": "ufl.transpose",
    "det": "ufl.det",
    "inv": "ufl.inv",
    "avg": "ufl.avg",
    "jump": "ufl.jump",
    "abs": "abs",
    "sign": "ufl.sign",
    "sqrt": "ufl.sqrt",
    "exp": "ufl.exp",
    "ln": "ufl.ln",
    "sin": "ufl.sin",
    "cos": "ufl.cos",
    "tan": "ufl.tan",
    "asin": "ufl.asin",
    "acos": "ufl.acos",
    "atan": "ufl.atan",
    "sinh": "ufl.sinh",
    "cosh": "ufl.cosh",
    "tanh": "ufl.tanh",
    "erf": "ufl.erf",
    "conj": "ufl.conj",
    "real": "ufl.real",
    "imag": "ufl.imag",
    "not": "ufl.Not",
    "perp": "ufl.perp",
    "cofac": "ufl.cofac",
    "diag_vector": "ufl.diag_vector",
    "variable": "ufl.variable",
    "cell_avg": "ufl.cell_avg",
    "facet_avg": "ufl.facet_avg",
    "exterior_derivative": "ufl.exterior_derivative",
}
_BINARY_UFL = {
    "dot": "ufl.dot",
    "inner": "ufl.inner",
    "outer": "ufl.outer",
    "cross": "ufl.cross",
    "atan2": "ufl.atan2",
    "max": "ufl.max_value",
    "min": "ufl.min_value",
    "lt": "ufl.lt",
    "gt": "ufl.gt",
    "le": "ufl.le",
    "ge": "ufl.ge",
    "eq": "ufl.eq",
    "ne": "ufl.ne",
    "and": "ufl.And",
    "or": "ufl.Or",
    "bessel_J": "ufl.bessel_J",
    "bessel_Y": "ufl.bessel_Y",
    "bessel_I": "ufl.bessel_I",
    "bessel_K": "ufl.bessel_K",
    "elem_mult": "ufl.elem_mult",
}
_INFIX = {"add": "+", "sub": "-", "mul": "*", "div_": "/"}
_GEO = {
    "CellVolume": "ufl.CellVolume(mesh)",
    "Circumradius": "ufl.Circumradius(mesh)",
    "FacetArea": "ufl.FacetArea(mesh)",
    "CellDiameter": "ufl.CellDiameter(mesh)",
    "MinFacetEdgeLength": "ufl.MinFacetEdgeLength(mesh)",
    "MaxFacetEdgeLength": "ufl.MaxFacetEdgeLength(mesh)",
    "MinCellEdgeLength": "ufl.MinCellEdgeLength(mesh)",
    "MaxCellEdgeLength": "ufl.MaxCellEdgeLength(mesh)",
    "detJ": "ufl.JacobianDeterminant(mesh)",
    "J": "ufl.Jacobian(mesh)",
    "K": "ufl.JacobianInverse(mesh)",
    "CellNormal": "ufl.CellNormal(mesh)",
    "x": "ufl.SpatialCoordinate(mesh)",
    "n": "ufl.FacetNormal(mesh)",
    "X": "ufl.CellCoordinate(mesh)",
    "FacetJacobian": "ufl.FacetJacobian(mesh)",
    "FacetJacobianDeterminant": "ufl.FacetJacobianDeterminant(mesh)",
    "CellVertices": "ufl.CellVertices(mesh)",
    "CellEdgeVectors": "ufl.CellEdgeVectors(mesh)",
    "FacetEdgeVectors": "ufl.FacetEdgeVectors(mesh)",
    "ReferenceCellVolume": "ufl.classes.ReferenceCellVolume(mesh)",
    "ReferenceFacetVolume": "ufl.classes.ReferenceFacetVolume(mesh)",
    "ReferenceNormal": "ufl.classes.ReferenceNormal(mesh)",
    "CellOrientation": "ufl.classes.CellOrientation(mesh)",
    "FacetOrientation": "ufl.classes.FacetOrientation(mesh)",
    "ReferenceCellEdgeVectors": "ufl.classes.ReferenceCellEdgeVectors(mesh)",
    "ReferenceFacetEdgeVectors": "ufl.classes.ReferenceFacetEdgeVectors(mesh)",
    "CellFacetJacobian": "ufl.classes.CellFacetJacobian(mesh)",
    "CellRidgeJacobian": "ufl.classes.CellRidgeJacobian(mesh)",
}


def _num(v) -> str:
    if isinstance(v, bool):
        return repr(v)
    if isinstance(v, int):
        return repr(v)
    return repr(float(v))


def _src(t) -> str:
    """Python/UFL source of an expression tree."""
    op = t[0]
    if op == "v":
        return "v"
    if op == "u":
        return "u"
    if op == "f":
        return f"f{t[1]}"
    if op == "c":
        return f"c{t[1]}"
    if op == "geo":
        return f"({_GEO[t[1]]})"
    if op == "lit":
        return f"({_num(t[1])})"
    if op == "clit":
        return f"(complex({float(t[1])!r}, {float(t[2])!r}))"
    if op == "split":  # i-th sub-function of a mixed function
        return f"ufl.split({_src(t[1])})[{int(t[2])}]"
    if op == "idx":
        ii = ", ".join(str(int(i)) for i in t[2:])
        return f"({_src(t[1])})[{ii}]"
    if op == "dx":
        return f"({_src(t[1])}).dx({int(t[2])})"
    if op == "+":
        return f"({_src(t[1])})('+')"
    if op == "-":
        return f"({_src(t[1])})('-')"
    if op == "jumpn":
        return f"ufl.jump({_src(t[1])}, ufl.FacetNormal(mesh))"
    if op == "neg":
        return f"(-({_src(t[1])}))"
    if op == "pow":
        return f"(({_src(t[1])})**({_src(t[2])}))"
    if op in _INFIX:
        return f"(({_src(t[1])}) {_INFIX[op]} ({_src(t[2])}))"
    if op == "cond":
        return f"ufl.conditional({_src(t[1])}, {_src(t[2])}, {_src(t[3])})"
    if op == "as_vector":
        return "ufl.as_vector([" + ", ".join(_src(a) for a in t[1]) + "])"
    if op == "as_matrix":
        return "ufl.as_matrix([" + ", ".join("[" + ", ".join(_src(a) for a in r) + "]" for r in t[1]) + "])"
    if op == "diff":  # d t[1] / d variable t[2]  where both are built from a shared variable
        return f"ufl.diff({_src(t[1])}, {_src(t[2])})"
    if op == "raw":  # escape hatch for templates
        return f"({t[1]})"
    if op in _UNARY_UFL:
        return f"{_UNARY_UFL[op]}({_src(t[1])})"
    if op in _BINARY_UFL:
        return f"{_BINARY_UFL[op]}({_src(t[1])}, {_src(t[2])})"
    raise ValueError(f"unknown tree op {op!r}")


def _shape_kw(shape):
    if shape is None or len(shape) == 0:
        return ""
    return ", shape=(" + ", ".join(str(int(s)) for s in shape) + ",)"


def element_src(E, cell="cell") -> str:
    """Source that constructs a basix.ufl element for description E; `cell` is a Python expression."""
    k = E[0]
    if k == "el":
        fam, deg = E[1], int(E[2])
        o = E[3] if len(E) > 3 and E[3] else {}
        s = f'basix.ufl.element("{fam}", {cell}, {deg}'
        if o.get("lv"):
            s += f", lagrange_variant=basix.LagrangeVariant.{o['lv']}"
        if o.get("dv"):
            s += f", dpc_variant=basix.DPCVariant.{o['dv']}"
        if o.get("dc"):
            s += ", discontinuous=True"
        s += _shape_kw(o.get("shape"))
        if o.get("sym"):
            s += ", symmetry=True"
        return s + ")"
    if k == "mixed":
        return "basix.ufl.mixed_element([" + ", ".join(element_src(e, cell) for e in E[1]) + "])"
    if k == "enriched":
        return "basix.ufl.enriched_element([" + ", ".join(element_src(e, cell) for e in E[1]) + "])"
    if k == "blocked":
        sh = "(" + ", ".join(str(int(s)) for s in E[2]) + ",)"
        return f"basix.ufl.blocked_element({element_src(E[1], cell)}, shape={sh})"
    if k == "real":
        sh = "(" + "".join(f"{int(s)}, " for s in E[1]) + ")"
        return f"basix.ufl.real_element({cell}, {sh})"
    if k == "quad":
        sh = "(" + "".join(f"{int(s)}, " for s in E[3]) + ")"
        return f'basix.ufl.quadrature_element({cell}, value_shape={sh}, scheme="{E[2]}", degree={int(E[1])})'
    if k == "cquad":
        sh = "(" + "".join(f"{int(s)}, " for s in E[3]) + ")"
        return (
            f"basix.ufl.quadrature_element({cell}, value_shape={sh}, "
            f"points=np.array({json.dumps(E[1])}, dtype=np.float64), "
            f"weights=np.array({json.dumps(E[2])}, dtype=np.float64))"
        )
    if k == "tp":
        # tensor-product factorised Lagrange element as in test/test_tensor_product.py
        deg = int(E[1])
        variant = E[3] if len(E) > 3 and E[3] else "gll_warped"
        inner = (
            f"basix.ufl.wrap_element(basix.create_tp_element(basix.ElementFamily.P, "
            f"basix.CellType[{cell}], {deg}, basix.LagrangeVariant.{variant}))"
        )
        if E[2]:
            sh = "(" + "".join(f"{int(s)}, " for s in E[2]) + ")"
            return f"basix.ufl.blocked_element({inner}, shape={sh})"
        return inner
    raise ValueError(f"unknown element description {E!r}")


def measure_src(I, mesh="mesh") -> str:
    m = I["m"]
    name = {"dx": "dx", "ds": "ds", "dS": "dS", "dP": "dP", "dr": "dr"}[m]
    kw = [f'"{name}"', f"domain={mesh}"]
    sid = I.get("id")
    if sid is not None:
        if isinstance(sid, (list, tuple)):
            kw.append("subdomain_id=(" + "".join(f"{int(i)}, " for i in sid) + ")")
        else:
            kw.append(f"subdomain_id={int(sid)}")
    md = I.get("md") or {}
    if md:
        kw.append("metadata=" + repr({k: md[k] for k in sorted(md)}))
    return "ufl.Measure(" + ", ".join(kw) + ")"


PRELUDE = """\
import basix
import basix.ufl
import numpy as np
import ufl
"""


def mesh_src(spec, name="mesh", cellvar="cell") -> str:
    cdeg = int(spec.get("cdeg", 1))
    gdim = int(spec.get("gdim", TDIM[spec["cell"]]))
    if spec.get("tp"):
        # coordinate element must be a tensor-product element for sum factorisation
        return (
            f"{name} = ufl.Mesh(basix.ufl.blocked_element(basix.ufl.wrap_element("
            f"basix.create_tp_element(basix.ElementFamily.P, basix.CellType[{cellvar}], {cdeg}, "
            f"basix.LagrangeVariant.gll_warped)), shape=({gdim},)))"
        )
    lv = spec.get("clv")
    lvs = f", lagrange_variant=basix.LagrangeVariant.{lv}" if lv else ""
    return f'{name} = ufl.Mesh(basix.ufl.element("Lagrange", {cellvar}, {cdeg}{lvs}, shape=({gdim},)))'


def to_source(spec, form_name="a", with_prelude=True) -> str:
    """Print the spec as the body of a UFL file defining `form_name` (or `expr_<name>`)."""
    L = []
    if with_prelude:
        L.append(PRELUDE)
    L.append(f'cell = "{spec["cell"]}"')
    # unrelated objects first (advance UFL counters): C12/C13 histories
    for i in range(int(spec.get("prelude", 0))):
        L.append(f'_pm{i} = ufl.Mesh(basix.ufl.element("Lagrange", cell, 1, shape=({TDIM[spec["cell"]]},)))')
        L.append(f'_pV{i} = ufl.FunctionSpace(_pm{i}, basix.ufl.element("Lagrange", cell, 1))')
        L.append(f"_pf{i} = ufl.Coefficient(_pV{i}); _pc{i} = ufl.Constant(_pm{i})")
    L.append(mesh_src(spec))
    on2 = set(spec.get("mesh2") or [])
    if on2:
        # a second mesh of the same cell type ("codimension-0 sub-mesh", as in test_submesh.py): some spaces live on it, the
        # integration domain stays `mesh`
        L.append(mesh_src(spec, name="mesh2"))
    for i, E in enumerate(spec.get("elements", [])):
        L.append(f"E{i} = {element_src(E)}")
        L.append(f"V{i} = ufl.FunctionSpace({'mesh2' if i in on2 else 'mesh'}, E{i})")
    # creation order of form arguments / coefficients / constants
    decl = []
    args = spec.get("args", [])
    if len(args) >= 1:
        decl.append(("v", f"v = ufl.TestFunction(V{args[0]})"))
    if len(args) >= 2:
        decl.append(("u", f"u = ufl.TrialFunction(V{args[1]})"))
    for k, ei in enumerate(spec.get("coefs", [])):
        decl.append((f"f{k}", f"f{k} = ufl.Coefficient(V{ei})"))
    for k, sh in enumerate(spec.get("consts", [])):
        shs = "(" + "".join(f"{int(s)}, " for s in sh) + ")"
        decl.append((f"c{k}", f"c{k} = ufl.Constant(mesh, shape={shs})" if sh else f"c{k} = ufl.Constant(mesh)"))
    order = spec.get("order")
    if order:
        byname = dict(decl)
        names = [n for n in order if n in byname] + [n for n, _ in decl if n not in order]
        decl = [(n, byname[n]) for n in names]
    L.extend(d for _, d in decl)

    if spec.get("kind", "form") == "form":
        terms = []
        for j, I in enumerate(spec["integrals"]):
            L.append(f"_m{j} = {measure_src(I)}")
            terms.append(f"ufl.as_ufl({_src(I['e'])})*_m{j}")
        L.append(f"{form_name} = " + " + ".join(terms))
        tr = spec.get("transform")
        if tr:
            if tr[0] == "derivative":
                L.append(f"{form_name} = ufl.derivative({form_name}, f{int(tr[1])})")
            elif tr[0] == "derivative2":
                L.append(f"{form_name} = ufl.derivative(ufl.derivative({form_name}, f{int(tr[1])}), f{int(tr[2])})")
            elif tr[0] == "adjoint":
                L.append(f"{form_name} = ufl.adjoint({form_name})")
            elif tr[0] == "action":
                L.append(f"{form_name} = ufl.action({form_name}, f{int(tr[1])})")
            elif tr[0] == "lhs":
                L.append(f"{form_name} = ufl.lhs({form_name})")
            elif tr[0] == "rhs":
                L.append(f"{form_name} = ufl.rhs({form_name})")
            elif tr[0] == "replace":
                L.append(f"{form_name} = ufl.replace({form_name}, {{f{int(tr[1])}: f{int(tr[2])}}})")
            else:
                raise ValueError(tr)
    elif spec.get("kind") == "expr":
        L.append(f"{form_name}_expr = ufl.as_ufl({_src(spec['e'])})")
        tr = spec.get("transform")
        if tr:
            if tr[0] == "derivative":  # Gateaux derivative w.r.t. coefficient -> needs an argument
                # left unexpanded: the compiler under test has to differentiate (and to notice that f_k drops out)
                L.append(
                    f"{form_name}_expr = ufl.derivative({form_name}_expr, f{int(tr[1])}, ufl.TrialFunction(f{int(tr[1])}.ufl_function_space()))"
                )
            elif tr[0] == "diff":  # d/d f_k   (ufl.diff with variable)
                raise ValueError(tr)
        L.append(f"{form_name}_points = np.array({json.dumps(spec['points'])}, dtype=np.float64)")
        L.append(f"{form_name} = ({form_name}_expr, {form_name}_points)")
    return "\n".join(L) + "\n"


class Built:
    """UFL objects of a spec."""

    def __init__(self, ns, spec, form_name):
        self.ns = ns
        self.spec = spec
        self.mesh = ns["mesh"]
        self.obj = ns[form_name]  # ufl.Form or (expr, points)
        self.coefs = [ns[f"f{k}"] for k in range(len(spec.get("coefs", [])))]
        self.consts = [ns[f"c{k}"] for k in range(len(spec.get("consts", [])))]
        self.elements = [ns[f"E{i}"] for i in range(len(spec.get("elements", [])))]
        self.v = ns.get("v")
        self.u = ns.get("u")

    @property
    def form(self):
        return self.obj


def build(spec, form_name="a") -> Built:
    src = to_source(spec, form_name=form_name)
    ns: dict = {}
    exec(compile(src, "<spec>", "exec"), ns)
    return Built(ns, spec, form_name)


def typing_namespace(spec) -> dict:
    """Namespace with mesh/spaces/arguments/coefficients of a (partial) spec, used by the generators
    to read value shapes off real UFL objects instead of re-deriving typing rules."""
    s = dict(spec)
    s["integrals"] = []
    src = to_source({**s, "kind": "none"}, form_name="_none")
    ns: dict = {}
    exec(compile(src, "<typing>", "exec"), ns)
    return ns


def tree_shape(tree, ns) -> tuple:
    return tuple(ns["ufl"].as_ufl(eval(_src(tree), ns)).ufl_shape)


def tree_size(t) -> int:
    if not isinstance(t, list):
        return 0
    return 1 + sum(tree_size(a) for a in t[1:] if isinstance(a, list))


def tree_ops(t, acc=None) -> set:
    acc = set() if acc is None else acc
    if isinstance(t, list) and t and isinstance(t[0], str):
        acc.add(t[0] if t[0] != "geo" else "geo:" + t[1])
        for a in t[1:]:
            if isinstance(a, list):
                tree_ops(a, acc)
    elif isinstance(t, list):
        for a in t:
            tree_ops(a, acc)
    return acc
