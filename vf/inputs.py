"""Kernel input data: geometries, coefficient/constant values, assembler-model packing.

All numeric input is derived from one integer (`data_seed`, drawn by Hypothesis) through a numpy
Generator, so a replay file only needs the spec and that integer.  Values are rounded to float32 so
the same numbers are exactly representable for all four scalar types.
"""

from __future__ import annotations

import basix
import numpy as np

from .refeval import CT, scalar_coordinate_element, tabulate


def f32(a):
    return np.asarray(a, dtype=np.float32).astype(np.float64)


def rng_for(seed, *salt):
    return np.random.default_rng([int(seed) & 0xFFFFFFFF, *[int(s) & 0xFFFFFFFF for s in salt]])


def reference_nodes(mesh):
    """Reference positions of the coordinate element's nodes (points of its point evaluations)."""
    cel = scalar_coordinate_element(mesh)
    be = cel._element
    pts = np.asarray(be.points)
    # check it is a nodal (point-evaluation) basis: tabulating at the points gives the identity
    T = tabulate(cel, pts, 0)[0][:, :, 0]
    if T.shape[0] != T.shape[1] or not np.allclose(T, np.eye(T.shape[0]), atol=1e-12):
        raise RuntimeError("coordinate element is not nodal at its points")
    return pts


def random_affine(rng, gdim, tdim, allow_reflection=True):
    """Well-conditioned affine map: singular values in [0.5, 2], any orientation."""
    G = rng.standard_normal((gdim, gdim))
    Q1, _ = np.linalg.qr(G)
    H = rng.standard_normal((tdim, tdim))
    Q2, _ = np.linalg.qr(H)
    s = np.exp(rng.uniform(np.log(0.5), np.log(2.0), size=tdim))
    S = np.zeros((gdim, tdim))
    S[:tdim, :tdim] = np.diag(s)
    A = Q1 @ S @ Q2
    if not allow_reflection and gdim == tdim and np.linalg.det(A) < 0:
        A[:, 0] = -A[:, 0]
    b = rng.uniform(-1, 1, size=gdim)
    return A, b


def detj_values(mesh, x, X):
    """(pseudo-)determinants of the Jacobian at reference points X for node coordinates x."""
    cel = scalar_coordinate_element(mesh)
    tdim = X.shape[1]
    T = tabulate(cel, X, 1)  # (1+tdim, P, nodes, 1)
    J = np.stack([T[1 + d][:, :, 0] @ x for d in range(tdim)], axis=2)  # (P, gdim, tdim)
    if J.shape[1] == J.shape[2]:
        return np.linalg.det(J)
    return np.sqrt(np.abs(np.linalg.det(np.einsum("pij,pik->pjk", J, J))))


def geometry(mesh, seed, kind="auto", salt=0):
    """Physical node coordinates (nodes, gdim) of one cell.

    kind: "reference" | "affine" | "perturbed" | "auto" (perturbed when the cell is not an affine simplex
    of degree 1, chosen by the seed otherwise affine).
    Non-degeneracy is ensured by construction and re-checked: det J keeps one sign on a probe set.
    """
    rng = rng_for(seed, 101, salt)
    Xn = reference_nodes(mesh)
    tdim = Xn.shape[1]
    gdim = mesh.geometric_dimension
    cellname = mesh.ufl_cell().cellname
    deg = mesh.ufl_coordinate_element().embedded_superdegree
    if kind == "reference":
        x = np.zeros((Xn.shape[0], gdim))
        x[:, :tdim] = Xn
        return x, "reference"
    for attempt in range(50):
        A, b = random_affine(rng, gdim, tdim)
        x = Xn @ A.T + b
        k = kind
        if kind == "auto":
            simplex = cellname in ("interval", "triangle", "tetrahedron")
            k = "perturbed" if (deg > 1 or not simplex) and rng.random() < 0.7 else "affine"
        if k == "perturbed":
            smin = np.linalg.svd(A, compute_uv=False).min()
            x = x + rng.uniform(-1, 1, size=x.shape) * 0.08 * smin / max(deg, 1)
        x = f32(x)
        # probe det J on a grid of reference points
        probe = np.vstack([Xn, np.asarray(basix.make_quadrature(CT[cellname], 4)[0])])
        dj = detj_values(mesh, x, probe)
        if gdim == tdim:
            ok = np.all(dj > 0.05) or np.all(dj < -0.05)
        else:
            ok = np.all(dj > 0.05)
        if ok:
            return x, k
    raise RuntimeError("could not generate a non-degenerate geometry")


def coefficient_values(rng, n, complex_):
    v = rng.uniform(-2, 2, size=n)
    if complex_:
        v = f32(v) + 1j * f32(rng.uniform(-2, 2, size=n))
        return v
    return f32(v)


class FormData:
    """Values for every coefficient/constant of a built spec, per restriction."""

    def __init__(self, built, seed, complex_=False, width=1, geom_kind="auto"):
        self.seed = seed
        rng = rng_for(seed, 7)
        self.coef = {}
        for f in built.coefs:
            n = f.ufl_function_space().ufl_element().dim
            self.coef[f] = [coefficient_values(rng, n, complex_) for _ in range(2)]
        self.const = {}
        for c in built.consts:
            n = int(np.prod(c.ufl_shape)) if c.ufl_shape else 1
            self.const[c] = coefficient_values(rng, n, complex_)
        self.x = []
        self.geom_kinds = []
        for r in range(2):
            x, k = geometry(built.mesh, seed, kind=geom_kind, salt=r)
            self.x.append(x)
            self.geom_kinds.append(k)

    def as_json(self):
        return {"seed": self.seed}


def pack_coordinates(xs, width):
    """coordinate_dofs[restriction][node][3]"""
    out = []
    for r in range(width):
        x = np.asarray(xs[r])
        p = np.zeros((x.shape[0], 3))
        p[:, : x.shape[1]] = x
        out.append(p)
    return np.concatenate(out).ravel()


def pack_w(original_coefficients, positions, data: FormData, width):
    """Assembler model: w[coefficient][restriction][dof] for the coefficients the descriptor lists.

    original_coefficients: form.coefficients() of the *original* form
    positions: descriptor's original_coefficient_positions
    """
    chunks = []
    for p in positions:
        f = original_coefficients[p]
        for r in range(width):
            chunks.append(np.asarray(data.coef[f][r]))
    if not chunks:
        return np.zeros(0)
    return np.concatenate(chunks)


def pack_c(original_constants, data: FormData):
    chunks = [np.asarray(data.const[c]).ravel() for c in original_constants]
    if not chunks:
        return np.zeros(0)
    return np.concatenate(chunks)
