"""Hypothesis driver shared by the checks: seeded, database-less, bucketed failures, bounded shrinking."""

from __future__ import annotations

import time
import traceback

import hypothesis
from hypothesis import HealthCheck, Phase, given, settings

from .common import ShardResult, canon, derive_seed, leave_crumb, spec_hash
from .kernels import Timeout as _Timeout


class Outcome:
    """Verdict of one generated case.

    status: "ok" | "violation" | anything else (counted class, e.g. "rejected", "unstable")
    """

    def __init__(self, status="ok", case_id=None, nontrivial=False, classes=(), sample=None,
                 key=None, bucket=None, what="", replay=None):
        self.status = status
        self.case_id = case_id
        self.nontrivial = nontrivial
        self.classes = list(classes)
        self.sample = sample
        self.key = key
        self.bucket = bucket
        self.what = what
        self.replay = replay


class _Found(Exception):
    pass


def drive(strategy, evaluate, n_examples: int, seed_parts, res: ShardResult, shrink_calls: int = 60,
          max_buckets: int = 3, known_keys=(), shrink_seconds: float = 90.0):
    """Run `evaluate` over `n_examples` generated cases.

    Failures are bucketed; for each new bucket Hypothesis shrinks (bounded by `shrink_calls` further
    evaluations), the minimal case is recorded and the bucket is excluded so the search continues.
    Cases whose key is a known finding are counted and skipped, never shrunk.
    """
    cache: dict[str, Outcome] = {}
    excluded: set[str] = set()
    recorded: set[str] = set()
    known_keys = set(known_keys)

    def cached_eval(case):
        h = spec_hash(case)
        o = cache.get(h)
        first = o is None
        if first:
            leave_crumb(case)
            try:
                o = evaluate(case)
            except _Timeout as e:  # budget hit: inconclusive, never a verdict
                o = Outcome(status="timeout-inconclusive", what=str(e))
            except (KeyboardInterrupt, SystemExit, GeneratorExit):
                raise
            except BaseException:  # harness bug (UFL's own errors derive from BaseException): never a verdict, never a lost shard
                res.harness_errors.append("evaluate() raised:\n" + traceback.format_exc()[-3000:] + "\ncase: " + canon(case)[:1500])
                o = Outcome(status="harness-error")
            cache[h] = o
            if o.case_id is None:
                o.case_id = h
            # record each distinct case exactly once
            res.case(o.case_id, o.nontrivial and o.status == "ok", sample=o.sample, classes=o.classes)
            res.count("status:" + o.status)
            if o.status == "generator-error":
                res.harness_errors.append("generator produced an invalid case: " + o.what + "\ncase: " + canon(case)[:1500])
        return o

    # Hypothesis always starts with the all-zero ("simplest") example, the same one in every shard: only shard 0 evaluates it,
    # the other shards skip it and get one more generated example instead
    skip_simplest = len(seed_parts) > 2 and isinstance(seed_parts[2], int) and seed_parts[2] != 0
    for round_ in range(max_buckets + 1):
        state = {"best": None, "calls_after_fail": 0, "t_fail": None, "calls": 0}

        @hypothesis.seed(derive_seed(*seed_parts))
        @settings(
            max_examples=n_examples + (1 if skip_simplest else 0),
            database=None,
            deadline=None,
            report_multiple_bugs=False,
            phases=[Phase.generate, Phase.shrink],
            suppress_health_check=[HealthCheck.too_slow, HealthCheck.data_too_large, HealthCheck.large_base_example],
            print_blob=False,
        )
        @given(strategy)
        def test(case):
            state["calls"] += 1
            if skip_simplest and state["calls"] == 1:
                return
            if state["best"] is not None:
                state["calls_after_fail"] += 1
                # the shrink budget (evaluations and wall time) only limits how small the reported case gets
                if state["calls_after_fail"] > shrink_calls or time.time() - state["t_fail"] > shrink_seconds:
                    # shrink budget exhausted: only the best-known failure keeps failing
                    if spec_hash(case) == spec_hash(state["best"][0]):
                        raise _Found()
                    return
            o = cached_eval(case)
            if o.status != "violation":
                return
            if o.key in known_keys:
                if o.key not in recorded:
                    recorded.add(o.key)
                    res.fail(o.key, o.what, o.replay, bucket=o.bucket)
                return
            if o.bucket in excluded:
                res.count("violations_in_recorded_bucket")
                return
            state["best"] = (case, o)
            if state["t_fail"] is None:
                state["t_fail"] = time.time()
            raise _Found()

        try:
            test()
        except _Found:
            case, o = state["best"]
            excluded.add(o.bucket)
            res.fail(o.key or spec_hash(case), o.what, o.replay if o.replay is not None else {"case": case}, bucket=o.bucket)
            continue
        except hypothesis.errors.FailedHealthCheck as e:
            res.harness_errors.append(f"Hypothesis health check: {e}")
        except Exception:
            if state["best"] is not None:
                case, o = state["best"]
                excluded.add(o.bucket)
                res.fail(o.key or spec_hash(case), o.what, o.replay if o.replay is not None else {"case": case}, bucket=o.bucket)
                continue
            res.harness_errors.append("hypothesis run raised:\n" + traceback.format_exc()[-3000:])
        break
    return res
