"""Controller of the deterministic scheduler (DESIGN.md 3.8): owns the order of the children's sync points."""

from __future__ import annotations

import json
import os
import subprocess
import sys
from pathlib import Path

from . import procs


class Child:
    def __init__(self, idx, job, workdir, extra_env=None):
        self.idx = idx
        cr, cw = os.pipe()
        er, ew = os.pipe()
        jf = Path(workdir) / f"child{idx}.job.json"
        jf.write_text(json.dumps(job))
        env = procs.child_env(0, dict({"VF_JOB": str(jf), "VF_CTRL_R": str(cr), "VF_EVT_W": str(ew)}, **(extra_env or {})))
        self.p = subprocess.Popen([sys.executable, "-m", "vf.sched_child"], env=env, pass_fds=(cr, ew), cwd=str(workdir),
                                  stdout=subprocess.DEVNULL, stderr=subprocess.DEVNULL)
        os.close(cr)
        os.close(ew)
        self.cw = cw
        self.ef = os.fdopen(er, "r")
        self.pending = None
        self.done = False
        self.results = []
        self.killed = False

    def advance(self):
        """Read events until the child blocks at a sync point or ends."""
        while True:
            line = self.ef.readline()
            if not line:
                self.done = True
                self.pending = None
                return
            line = line.strip()
            if line.startswith("RESULT "):
                self.results.append(json.loads(line[7:]))
                continue
            self.pending = line
            return

    def grant(self, kill=False):
        os.write(self.cw, b"k" if kill else b"g")
        if kill:
            self.killed = True
        self.advance()

    def close(self):
        try:
            self.p.kill()
        except OSError:
            pass
        self.p.wait()
        try:
            os.close(self.cw)
            self.ef.close()
        except OSError:
            pass


def run_schedule(jobs, schedule, workdir, kill_at=None, max_steps=4000, extra_env=None):
    """jobs: one job dict per child.  schedule: list of child indices (cyclic).  kill_at: (child, sync ordinal) or (child, tag).

    Returns (history [(child, tag)], children).  Every granted step runs to the child's next sync point before the next
    choice, so the history is a total order of completed primitive operations.
    """
    kids = [Child(i, j, workdir, extra_env) for i, j in enumerate(jobs)]
    hist = []
    try:
        for k in kids:
            k.advance()  # all reach "start"
        step = 0
        counts = [0] * len(kids)
        while any(not k.done for k in kids) and step < max_steps:
            alive = [k.idx for k in kids if not k.done]
            want = schedule[step % len(schedule)] if schedule else alive[0]
            i = want if want in alive else alive[step % len(alive)]
            step += 1
            k = kids[i]
            tag = k.pending
            die = kill_at is not None and kill_at[0] == i and (kill_at[1] == counts[i] or kill_at[1] == tag)
            hist.append((i, tag + (" <KILL>" if die else "")))
            counts[i] += 1
            k.grant(kill=die)
        return hist, kids
    finally:
        for k in kids:
            k.close()


def run_plain(job, workdir, tag, extra_env=None, timeout=600):
    """Run one child without scheduling; returns list of request results (or None)."""
    wd = Path(workdir)
    jf = wd / f"{tag}.job.json"
    of = wd / f"{tag}.out.json"
    jf.write_text(json.dumps(job))
    env = procs.child_env(0, dict({"VF_JOB": str(jf), "VF_OUT": str(of)}, **(extra_env or {})))
    r = subprocess.run([sys.executable, "-m", "vf.sched_child"], env=env, cwd=str(wd), capture_output=True, text=True, timeout=timeout)
    if not of.exists():
        return None, r.stderr[-800:]
    return json.loads(of.read_text()), r.stderr[-300:]
