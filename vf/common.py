"""Shared infrastructure: seeds, scratch directories, parallel shards, evidence, exit protocol.

Exit protocol (DESIGN.md section 4):
  0  property held on everything explored (KNOWN-FINDING lines may be printed)
  1  at least one violation not listed in known_findings.json; a line
     ``VIOLATION property=<id> replay=<path>`` is printed per root cause
  2  harness error / inconclusive (never a verdict about the code under test)
"""

from __future__ import annotations

import collections
import contextlib
import hashlib
import json
import multiprocessing
import os
import shutil
import sys
import tempfile
import time
import traceback
from pathlib import Path

VERIF = Path(__file__).resolve().parent.parent
REPO = Path(os.environ.get("VF_REPO", "/repo"))
NPROC = int(os.environ.get("VF_NPROC", "16"))
PY = "/venv/bin/python"


def verif_seed() -> int:
    try:
        return int(os.environ.get("VERIF_SEED", "1"))
    except ValueError:
        return 1


def derive_seed(*parts) -> int:
    h = hashlib.sha256(repr(parts).encode()).hexdigest()
    return int(h[:12], 16)


def canon(obj) -> str:
    return json.dumps(obj, sort_keys=True, separators=(",", ":"), default=_json_default)


def _json_default(o):
    import numpy as np

    if isinstance(o, np.ndarray):
        return o.tolist()
    if isinstance(o, (np.integer,)):
        return int(o)
    if isinstance(o, (np.floating,)):
        return float(o)
    if isinstance(o, (np.complexfloating, complex)):
        return [float(o.real), float(o.imag)]
    if isinstance(o, (set, frozenset)):
        return sorted(o)
    if isinstance(o, Path):
        return str(o)
    if isinstance(o, bytes):
        return o.hex()
    return repr(o)


def spec_hash(obj) -> str:
    return hashlib.sha1(canon(obj).encode()).hexdigest()[:16]


def assert_repo_under_test():
    """Every check must exercise the working tree in /repo."""
    import ffcx

    p = Path(ffcx.__file__).resolve()
    if not str(p).startswith(str(REPO.resolve()) + os.sep):
        print(f"HARNESS-ERROR: ffcx imported from {p}, expected under {REPO}")
        sys.exit(2)


@contextlib.contextmanager
def scratch(prefix="vf-"):
    base = os.environ.get("VERIF_SCRATCH") or tempfile.gettempdir()
    d = tempfile.mkdtemp(prefix=prefix, dir=base)
    try:
        yield Path(d)
    finally:
        shutil.rmtree(d, ignore_errors=True)


# --------------------------------------------------------------------------------------
# Known findings
# --------------------------------------------------------------------------------------


def load_known_findings(prop: str):
    """Return (known, fixed) lists of entries for a property.

    File format: {"findings": [{"property": "C19", "status": "known"|"fixed", "key": <str>,
    "what": <str>, ...}]}.  ``key`` identifies the specific failing input / call site; a
    violation is suppressed only if its own key equals a *known* entry's key.
    """
    p = VERIF / "known_findings.json"
    if not p.exists():
        return [], []
    data = json.loads(p.read_text())
    known = [e for e in data.get("findings", []) if e["property"] == prop and e["status"] == "known"]
    fixed = [e for e in data.get("findings", []) if e["property"] == prop and e["status"] == "fixed"]
    return known, fixed


# --------------------------------------------------------------------------------------
# Run: accumulates what one check execution covered; writes evidence; decides the exit code
# --------------------------------------------------------------------------------------


class Run:
    def __init__(self, prop: str, tier: str, level: str = "exploration", rule: str = ""):
        self.prop = prop
        self.tier = tier
        self.level = level
        self.rule = rule
        self.seed = verif_seed()
        self.t0 = time.time()
        self.evaluations = 0
        self.nontrivial: set[str] = set()
        self.counters: collections.Counter = collections.Counter()
        self.samples: list = []
        self.max_samples = 5
        self.failures: list[dict] = []  # each: {"key":..., "bucket":..., "what":..., "replay":{...}}
        self.harness_errors: list[str] = []
        self.assumptions: list[str] = []
        self.extra: dict = {}
        self.exhaustive = None
        self.known, self.fixed = load_known_findings(prop)
        self.known_seen: dict[str, int] = collections.Counter()

    # -- recording -------------------------------------------------------------------
    def count(self, key, n=1):
        self.counters[key] += n

    def case(self, case_id: str | None, nontrivial: bool, sample=None, classes=()):
        self.evaluations += 1
        if nontrivial and case_id is not None:
            self.nontrivial.add(case_id)
        for c in classes:
            self.counters[c] += 1
        if sample is not None and len(self.samples) < self.max_samples:
            self.samples.append(sample)

    def fail(self, key: str, what: str, replay: dict, bucket: str | None = None):
        """Record a violation with identifying key (specific input) and root-cause bucket."""
        self.failures.append({"key": key, "bucket": bucket or key, "what": what, "replay": replay})

    def harness_error(self, msg: str):
        self.harness_errors.append(msg)

    def merge(self, part: dict):
        """Merge a shard result produced by ShardResult.as_dict()."""
        self.evaluations += part.get("evaluations", 0)
        self.nontrivial.update(part.get("nontrivial", []))
        self.counters.update(part.get("counters", {}))
        for s in part.get("samples", []):
            if len(self.samples) < self.max_samples:
                self.samples.append(s)
        self.failures.extend(part.get("failures", []))
        self.harness_errors.extend(part.get("harness_errors", []))

    # -- finishing -------------------------------------------------------------------
    def finish(self, min_nontrivial: int = 2) -> int:
        wall = time.time() - self.t0
        known_keys = {e["key"]: e for e in self.known}
        violations = []
        seen_buckets = set()
        for f in self.failures:
            if f["key"] in known_keys:
                self.known_seen[f["key"]] += 1
                continue
            if f["bucket"] in seen_buckets:
                self.counters["violations_same_bucket_suppressed"] += 1
                continue
            seen_buckets.add(f["bucket"])
            violations.append(f)

        for k, n in sorted(self.known_seen.items()):
            print(f"KNOWN-FINDING: property={self.prop} {known_keys[k]['what']} [key={k}; seen {n}x]")

        rc = 0
        rep_dir = Path(os.environ.get("VF_REPLAY_DIR") or (VERIF / "replays"))
        for f in violations:
            rep_dir.mkdir(exist_ok=True, parents=True)
            h = hashlib.sha1(canon([f["key"], f["bucket"]]).encode()).hexdigest()[:10]
            path = rep_dir / f"{self.prop}-{h}.json"
            doc = {
                "property": self.prop,
                "key": f["key"],
                "bucket": f["bucket"],
                "what": f["what"],
                "seed": self.seed,
                "tier": self.tier,
                "replay": f["replay"],
            }
            path.write_text(json.dumps(doc, indent=1, default=_json_default))
            print(f"VIOLATION property={self.prop} replay={path}")
            print(f"  what: {f['what'][:2000]}")
            rc = 1

        if self.harness_errors:
            for m in self.harness_errors[:20]:
                print(f"HARNESS-ERROR: {m[:600]}{' [...] ' + m[-2400:] if len(m) > 3000 else m[600:]}")
            if rc == 0:
                rc = 2
        nerr = self.counters.get("status:harness-error", 0)
        if rc == 0 and nerr > max(3, 0.1 * max(self.evaluations, 1)):
            print(f"HARNESS-ERROR: {nerr} of {self.evaluations} cases ended in a harness-side error (child process died / no output)")
            rc = 2
        if rc == 0 and len(self.nontrivial) < min_nontrivial:
            print(
                f"HARNESS-ERROR: only {len(self.nontrivial)} distinct non-trivial cases "
                f"(need >= {min_nontrivial}); the generator is not reaching the property"
            )
            rc = 2

        cov = {
            "evaluations": int(self.evaluations),
            "distinct_nontrivial": len(self.nontrivial),
            "rule": self.rule,
            "samples": self.samples[: self.max_samples],
            "classes": dict(sorted(self.counters.items())),
            "known_findings_seen": dict(self.known_seen),
        }
        if self.exhaustive is not None:
            cov["exhaustive"] = bool(self.exhaustive)
        cov.update(self.extra)
        ev = {
            "property_id": self.prop,
            "tier": self.tier,
            "seed": int(self.seed),
            "level": self.level,
            "coverage": cov,
            "assumptions": self.assumptions,
            "wall_s": round(wall, 2),
            "violations": len(violations),
        }
        # VF_EVIDENCE_DIR is only set when the checks are pointed at a deliberately broken scratch copy
        evdir = Path(os.environ.get("VF_EVIDENCE_DIR") or (VERIF / "evidence"))
        evdir.mkdir(exist_ok=True, parents=True)
        (evdir / f"{self.prop}.json").write_text(json.dumps(ev, indent=1, default=_json_default))
        print(
            f"[{self.prop}/{self.tier}] evaluations={self.evaluations} "
            f"distinct_nontrivial={len(self.nontrivial)} violations={len(violations)} "
            f"known={sum(self.known_seen.values())} harness_errors={len(self.harness_errors)} "
            f"wall={wall:.1f}s exit={rc}"
        )
        return rc


class ShardResult:
    """What a worker process sends back to the parent."""

    def __init__(self):
        self.evaluations = 0
        self.nontrivial = set()
        self.counters = collections.Counter()
        self.samples = []
        self.failures = []
        self.harness_errors = []

    def case(self, case_id, nontrivial, sample=None, classes=()):
        self.evaluations += 1
        if nontrivial and case_id is not None:
            self.nontrivial.add(case_id)
        for c in classes:
            self.counters[c] += 1
        if sample is not None and len(self.samples) < 2:
            self.samples.append(sample)

    def count(self, key, n=1):
        self.counters[key] += n

    def fail(self, key, what, replay, bucket=None):
        self.failures.append({"key": key, "bucket": bucket or key, "what": what, "replay": replay})

    def as_dict(self):
        return {
            "evaluations": self.evaluations,
            "nontrivial": sorted(self.nontrivial),
            "counters": dict(self.counters),
            "samples": self.samples,
            "failures": self.failures,
            "harness_errors": self.harness_errors,
        }


def _shard_entry(args):
    fn, shard, nshards, kwargs = args
    try:
        os.environ["VF_SHARD"] = str(shard)
        res = fn(shard=shard, nshards=nshards, **kwargs)
        return res.as_dict() if isinstance(res, ShardResult) else res
    except BaseException:
        r = ShardResult()
        r.harness_errors.append(f"shard {shard} crashed:\n{traceback.format_exc()}")
        return r.as_dict()


def _shard_process(args, outfile, crumbfile):
    os.environ["VF_CRUMB_FILE"] = crumbfile
    res = _shard_entry(args)
    tmp = outfile + ".tmp"
    with open(tmp, "w") as f:
        json.dump(res, f, default=_json_default)
    os.replace(tmp, outfile)


def leave_crumb(case):
    """Record the case about to be evaluated, so that a crash of the worker process can be attributed."""
    p = os.environ.get("VF_CRUMB_FILE")
    if p:
        try:
            with open(p, "w") as f:
                f.write(canon(case)[:20000])
        except OSError:
            pass


def run_shards(fn, nshards: int, **kwargs) -> list[dict]:
    """Run fn(shard=i, nshards=n, **kwargs) in separate forked processes; returns list of dict results.

    Each shard is its own process writing its result to a file, so that a worker killed by a signal (e.g. a generated
    kernel that segfaults) cannot hang the run: it is reported with the case it was evaluating.
    """
    jobs = [(fn, i, nshards, kwargs) for i in range(nshards)]
    if nshards == 1 or os.environ.get("VF_SERIAL"):
        return [_shard_entry(j) for j in jobs]
    ctx = multiprocessing.get_context("fork")
    base = tempfile.mkdtemp(prefix="vf-shards-", dir=os.environ.get("VERIF_SCRATCH") or tempfile.gettempdir())
    results: list[dict] = []
    try:
        pending = list(enumerate(jobs))
        running: dict[int, tuple] = {}
        while pending or running:
            while pending and len(running) < NPROC:
                i, job = pending.pop(0)
                out = os.path.join(base, f"shard{i}.json")
                crumb = os.path.join(base, f"shard{i}.crumb")
                p = ctx.Process(target=_shard_process, args=(job, out, crumb))
                p.start()
                running[i] = (p, out, crumb)
            for i in list(running):
                p, out, crumb = running[i]
                p.join(timeout=0.2)
                if p.is_alive():
                    continue
                del running[i]
                if os.path.exists(out):
                    with open(out) as f:
                        results.append(json.load(f))
                else:
                    case = ""
                    if os.path.exists(crumb):
                        with open(crumb) as f:
                            case = f.read()
                    r = ShardResult()
                    r.harness_errors.append(f"WORKER-CRASH shard {i} exit code {p.exitcode} (negative = signal) while evaluating case: {case[:6000]}")
                    d = r.as_dict()
                    d["crash"] = {"exitcode": p.exitcode, "case": case}
                    results.append(d)
    finally:
        shutil.rmtree(base, ignore_errors=True)
    return results


def pmap(fn, items, nproc: int | None = None, chunksize: int = 1):
    items = list(items)
    if os.environ.get("VF_SERIAL") or len(items) <= 1:
        return [fn(i) for i in items]
    ctx = multiprocessing.get_context("fork")
    with ctx.Pool(min(nproc or NPROC, len(items))) as pool:
        return pool.map(fn, items, chunksize=chunksize)


def thorough(n: int) -> int:
    """Case count of a thorough tier: the built-in depth times VF_THOROUGH_SCALE (default 1) for longer campaigns."""
    try:
        k = float(os.environ.get("VF_THOROUGH_SCALE", "1"))
    except ValueError:
        k = 1.0
    return max(1, int(round(n * k)))


def tier_arg(argv_tier: str | None) -> str:
    t = argv_tier or os.environ.get("VERIF_TIER") or "quick"
    return t if t in ("quick", "thorough") else "quick"
