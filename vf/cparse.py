"""Independent re-parsers for formatted code: C (pycparser) and Python (ast) -> normal-form trees.

Normal form (shared by original JSON trees and re-parsed text):
  * symbols lose their dtype: ["Sym", name]; array access ["Acc", name, [idx]]
  * n-ary Sum/Product = left fold of Add/Mul; one operand = the operand
  * a negative real literal = ["Neg", positive literal]; complex literal = ["Cplx", re, im]
  * MultiIndex = normal form of its global_index
  * statements: flat lists; comments dropped; Section = declarations followed by ["Block", [...]]
Float literals are compared to within one ulp by `same`.
"""

from __future__ import annotations

import ast as pyast
import math
import re

import numpy as np
from pycparser import c_ast, c_parser

from . import lntree

C_TYPES = {
    "float64": {"SCALAR": "double", "REAL": "double"},
    "float32": {"SCALAR": "float", "REAL": "float"},
    "complex128": {"SCALAR": "double _Complex", "REAL": "double"},
    "complex64": {"SCALAR": "float _Complex", "REAL": "float"},
}
NP_TYPES = {
    "float64": {"SCALAR": "float64", "REAL": "float64"},
    "float32": {"SCALAR": "float32", "REAL": "float32"},
    "complex128": {"SCALAR": "complex128", "REAL": "float64"},
    "complex64": {"SCALAR": "complex64", "REAL": "float32"},
}


class ParseFailure(Exception):
    pass


# ---------------------------------------------------------------------------------------
# normal form of original trees
# ---------------------------------------------------------------------------------------


def _neg_lit(kind, v):
    if v < 0 or (v == 0 and math.copysign(1.0, v) < 0):
        return ["Neg", [kind, -v]]
    return [kind, v]


def nf_expr(t, math_name=lambda name, args: name):
    k = t[0]
    if k == "LitF":
        v = t[1]
        if isinstance(v, (list, tuple)):
            return ["Cplx", float(v[0]), float(v[1])]
        return _neg_lit("LitF", float(v))
    if k == "LitI":
        return _neg_lit("LitI", int(t[1]))
    if k == "Sym":
        return ["Sym", t[1]]
    if k == "Acc":
        return ["Acc", t[1], [nf_expr(i, math_name) for i in t[3]]]
    if k == "MI":
        gi = lntree.unbuild(lntree.build(t).global_index)
        return nf_expr(gi, math_name)
    if k in ("Neg", "Not"):
        return [k, nf_expr(t[1], math_name)]
    if k in ("Sum", "Product"):
        args = [nf_expr(a, math_name) for a in t[1]]
        r = args[0]
        for a in args[1:]:
            r = ["Add" if k == "Sum" else "Mul", r, a]
        return r
    if k == "Math":
        return ["Math", math_name(t[1], t[2]), [nf_expr(a, math_name) for a in t[2]]]
    if k == "Cond":
        return ["Cond", nf_expr(t[1], math_name), nf_expr(t[2], math_name), nf_expr(t[3], math_name)]
    if k in lntree.BINOPS:
        return [k, nf_expr(t[1], math_name), nf_expr(t[2], math_name)]
    raise ValueError(k)


def nf_stmts(stmts, scalar_type, types, math_name):
    """Normal form of a list of statement trees -> flat list.  types is C_TYPES or NP_TYPES (language)."""
    py = types is NP_TYPES
    out = []
    for t in stmts:
        k = t[0]
        if k in ("Assign", "AssignAdd"):
            out.append([k, nf_expr(t[1], math_name), nf_expr(t[2], math_name)])
        elif k == "VarDecl":
            dt = t[1][2]
            val = None if t[2] is None else nf_expr(t[2], math_name)
            if py:  # a Python declaration is an assignment
                out.append(["Assign", ["Sym", t[1][1]], val])
            else:
                out.append(["VarDecl", t[1][1], _tname(types, scalar_type, dt), val])
        elif k == "ArrDecl":
            vals = t[4]
            flat = None
            if isinstance(vals, list):
                flat = [float(x) for x in np.asarray(vals, dtype=np.float64).ravel()]
            elif vals is not None:
                flat = [float(vals)]
            out.append(["ArrDecl", t[1], _tname(types, scalar_type, t[2]), [int(s) for s in t[3]], flat, None if py else bool(t[5])])
        elif k == "For":
            idx = t[1]
            if idx[0] != "Sym":
                raise ValueError("loop index")
            out.append(["For", idx[1], nf_expr(t[2], math_name), nf_expr(t[3], math_name), nf_stmts(t[4], scalar_type, types, math_name)])
        elif k == "Section":
            out.extend(nf_stmts(t[3], scalar_type, types, math_name))
            if t[2]:
                inner = nf_stmts(t[2], scalar_type, types, math_name)
                if py:
                    out.extend(inner)
                else:
                    out.append(["Block", inner])
        elif k == "List":
            out.extend(nf_stmts(t[1], scalar_type, types, math_name))
        elif k == "Comment":
            pass
        else:
            raise ValueError(k)
    return out


def _tname(types, scalar_type, dt):
    if dt == "INT":
        return "int" if types is C_TYPES else "int32"
    if dt == "BOOL":
        return "bool"
    return types[scalar_type][dt]


def _as_real_literal(t):
    if t[0] == "LitF":
        return float(t[1])
    if t[0] == "LitI":
        return float(t[1])
    if t[0] == "Neg" and t[1][0] in ("LitF", "LitI"):
        return -float(t[1][1])
    return None


def canon_complex(t):
    """Value-preserving canonicalisation applied to both sides before comparison: a real literal plus/minus a
    purely imaginary literal, and a negated complex literal, are the complex literal (Python prints complex
    numbers as sums, and parentheses do not survive parsing)."""
    if not isinstance(t, list):
        return t
    t = [canon_complex(a) for a in t]
    if len(t) == 3 and t[0] in ("Add", "Sub") and isinstance(t[2], list) and t[2] and t[2][0] == "Cplx" and t[2][1] == 0.0 \
            and isinstance(t[1], list) and t[1]:
        re_ = _as_real_literal(t[1])
        if re_ is not None:
            return ["Cplx", re_, t[2][2] if t[0] == "Add" else -t[2][2]]
    if len(t) == 2 and t[0] == "Neg" and isinstance(t[1], list) and t[1] and t[1][0] == "Cplx":
        return ["Cplx", -t[1][1], -t[1][2]]
    return t


def same(a, b, ulps=1.0):
    """Structural equality of normal forms; float literals within `ulps` units in the last place."""
    if isinstance(a, list) and isinstance(b, list):
        if len(a) != len(b):
            return False
        if a and a[0] == "LitF" and b and b[0] == "LitF":
            x, y = float(a[1]), float(b[1])
            if x == y:
                return True
            if not (math.isfinite(x) and math.isfinite(y)):
                return False
            return abs(x - y) <= ulps * math.ulp(x)
        if a and a[0] == "Cplx" and b and b[0] == "Cplx":
            return same(["LitF", a[1]], ["LitF", b[1]], ulps) and same(["LitF", a[2]], ["LitF", b[2]], ulps)
        return all(same(x, y, ulps) for x, y in zip(a, b))
    if isinstance(a, float) and isinstance(b, float):
        return a == b or abs(a - b) <= ulps * math.ulp(a)
    return a == b


# ---------------------------------------------------------------------------------------
# C
# ---------------------------------------------------------------------------------------

_C_PRELUDE = "typedef _Bool bool; typedef unsigned char uint8_t;\n"
_C_BIN = {"+": "Add", "-": "Sub", "*": "Mul", "/": "Div", "==": "EQ", "!=": "NE", "<": "LT", ">": "GT", "<=": "LE",
          ">=": "GE", "&&": "And", "||": "Or"}


def strip_c_comments(text):
    return "\n".join(re.sub(r"//.*$", "", line) for line in text.split("\n"))


def _c_expr(n):
    if isinstance(n, c_ast.Constant):
        if n.type in ("int", "long int", "unsigned int"):
            return ["LitI", int(n.value.rstrip("uUlL"), 0)]
        if n.type in ("double", "float", "long double"):
            s = n.value.rstrip("fFlL")
            return ["LitF", float(s)]
        raise ParseFailure(f"constant type {n.type}")
    if isinstance(n, c_ast.ID):
        return ["Sym", n.name]
    if isinstance(n, c_ast.ArrayRef):
        idx = []
        while isinstance(n, c_ast.ArrayRef):
            idx.insert(0, _c_expr(n.subscript))
            n = n.name
        if not isinstance(n, c_ast.ID):
            raise ParseFailure("array base is not an identifier")
        return ["Acc", n.name, idx]
    if isinstance(n, c_ast.UnaryOp):
        if n.op == "-":
            return ["Neg", _c_expr(n.expr)]
        if n.op == "!":
            return ["Not", _c_expr(n.expr)]
        if n.op == "+":
            return _c_expr(n.expr)
        raise ParseFailure(f"unary operator {n.op}")
    if isinstance(n, c_ast.BinaryOp):
        if n.op not in _C_BIN:
            raise ParseFailure(f"binary operator {n.op}")
        a, b = _c_expr(n.left), _c_expr(n.right)
        if n.op == "+" and b[0] == "Mul" and b[1] == ["Sym", "I"]:
            re_, im_ = _real_lit(a), _real_lit(b[2])
            if re_ is not None and im_ is not None:
                return ["Cplx", re_, im_]
        return [_C_BIN[n.op], a, b]
    if isinstance(n, c_ast.TernaryOp):
        return ["Cond", _c_expr(n.cond), _c_expr(n.iftrue), _c_expr(n.iffalse)]
    if isinstance(n, c_ast.FuncCall):
        args = [_c_expr(a) for a in (n.args.exprs if n.args else [])]
        return ["Math", n.name.name, args]
    if isinstance(n, c_ast.Assignment):
        raise ParseFailure("assignment inside expression")
    raise ParseFailure(f"C expression node {type(n).__name__}")


def _real_lit(t):
    if t[0] == "LitF":
        return float(t[1])
    if t[0] == "Neg" and t[1][0] == "LitF":
        return -float(t[1][1])
    return None


def _c_type(tn):
    names = list(tn.type.names) if isinstance(tn.type, c_ast.IdentifierType) else ["?"]
    return " ".join(names)


def _flatten_init(n, out):
    if isinstance(n, c_ast.InitList):
        for e in n.exprs:
            _flatten_init(e, out)
    else:
        e = _c_expr(n)
        v = _real_lit(e)
        if v is None:
            if e[0] == "LitI":
                v = float(e[1])
            elif e[0] == "Neg" and e[1][0] == "LitI":
                v = -float(e[1][1])
            else:
                raise ParseFailure("non-literal array initialiser")
        out.append(v)
    return out


def _c_stmts(items):
    out = []
    for n in items or []:
        if isinstance(n, c_ast.Assignment):
            if n.op not in ("=", "+="):
                raise ParseFailure(f"assignment operator {n.op}")
            out.append(["Assign" if n.op == "=" else "AssignAdd", _c_expr(n.lvalue), _c_expr(n.rvalue)])
        elif isinstance(n, c_ast.Decl):
            if isinstance(n.type, c_ast.TypeDecl):
                out.append(["VarDecl", n.name, _c_type(n.type), None if n.init is None else _c_expr(n.init)])
            elif isinstance(n.type, c_ast.ArrayDecl):
                sizes = []
                t = n.type
                while isinstance(t, c_ast.ArrayDecl):
                    d = _c_expr(t.dim)
                    if d[0] != "LitI":
                        raise ParseFailure("array dimension not an integer literal")
                    sizes.append(d[1])
                    t = t.type
                const = "const" in (n.quals or []) and "static" in (n.storage or [])
                flat = None if n.init is None else _flatten_init(n.init, [])
                out.append(["ArrDecl", n.name, _c_type(t), sizes, flat, const])
            else:
                raise ParseFailure("declaration type")
        elif isinstance(n, c_ast.For):
            init = n.init
            if not (isinstance(init, c_ast.DeclList) and len(init.decls) == 1):
                raise ParseFailure("for-init")
            d = init.decls[0]
            if _c_type(d.type) != "int":
                raise ParseFailure("loop index type")
            name = d.name
            cond = n.cond
            if not (isinstance(cond, c_ast.BinaryOp) and cond.op == "<" and isinstance(cond.left, c_ast.ID) and cond.left.name == name):
                raise ParseFailure("for-condition is not `index < end`")
            nxt = n.next
            if not (isinstance(nxt, c_ast.UnaryOp) and nxt.op in ("++", "p++") and isinstance(nxt.expr, c_ast.ID) and nxt.expr.name == name):
                raise ParseFailure("for-increment is not ++index")
            body = n.stmt.block_items if isinstance(n.stmt, c_ast.Compound) else [n.stmt]
            out.append(["For", name, _c_expr(d.init), _c_expr(cond.right), _c_stmts(body)])
        elif isinstance(n, c_ast.Compound):
            out.append(["Block", _c_stmts(n.block_items)])
        elif isinstance(n, c_ast.EmptyStatement):
            pass
        else:
            raise ParseFailure(f"C statement node {type(n).__name__}")
    return out


def parse_c_statements(text):
    src = _C_PRELUDE + "void vf__f(void)\n{\n" + strip_c_comments(text) + "\n}\n"
    try:
        tree = c_parser.CParser().parse(src)
    except Exception as e:  # pycparser raises plain exceptions with position info
        raise ParseFailure(f"C syntax error: {e}") from e
    return _c_stmts(tree.ext[-1].body.block_items)


def parse_c_expression(text):
    st = parse_c_statements("vf__r = " + text + ";")
    if len(st) != 1 or st[0][0] != "Assign" or st[0][1] != ["Sym", "vf__r"]:
        raise ParseFailure("expression did not parse as a single assignment right-hand side")
    return st[0][2]


# ---------------------------------------------------------------------------------------
# Python
# ---------------------------------------------------------------------------------------

_PY_BIN = {pyast.Add: "Add", pyast.Sub: "Sub", pyast.Mult: "Mul", pyast.Div: "Div"}
_PY_CMP = {pyast.Eq: "EQ", pyast.NotEq: "NE", pyast.Lt: "LT", pyast.Gt: "GT", pyast.LtE: "LE", pyast.GtE: "GE"}


def _py_expr(n):
    if isinstance(n, pyast.Constant):
        v = n.value
        if isinstance(v, bool):
            raise ParseFailure("bool constant")
        if isinstance(v, int):
            return ["LitI", v]
        if isinstance(v, float):
            return ["LitF", v]
        if isinstance(v, complex):
            return ["Cplx", v.real, v.imag]
        raise ParseFailure(f"constant {v!r}")
    if isinstance(n, pyast.Name):
        return ["Sym", n.id]
    if isinstance(n, pyast.Subscript):
        if not isinstance(n.value, pyast.Name):
            raise ParseFailure("subscript base")
        sl = n.slice
        idx = [_py_expr(e) for e in sl.elts] if isinstance(sl, pyast.Tuple) else [_py_expr(sl)]
        return ["Acc", n.value.id, idx]
    if isinstance(n, pyast.UnaryOp):
        if isinstance(n.op, pyast.USub):
            return ["Neg", _py_expr(n.operand)]
        if isinstance(n.op, pyast.Not):
            return ["Not", _py_expr(n.operand)]
        raise ParseFailure("unary op")
    if isinstance(n, pyast.BinOp):
        if type(n.op) not in _PY_BIN:
            raise ParseFailure(f"binary op {type(n.op).__name__}")
        a, b = _py_expr(n.left), _py_expr(n.right)
        k = _PY_BIN[type(n.op)]
        return [k, a, b]
    if isinstance(n, pyast.Compare):
        if len(n.ops) != 1:
            raise ParseFailure("chained comparison (Python semantics differ from C)")
        return [_PY_CMP[type(n.ops[0])], _py_expr(n.left), _py_expr(n.comparators[0])]
    if isinstance(n, pyast.BoolOp):
        k = "And" if isinstance(n.op, pyast.And) else "Or"
        vals = [_py_expr(v) for v in n.values]
        r = vals[0]
        for v in vals[1:]:
            r = [k, r, v]
        return r
    if isinstance(n, pyast.IfExp):
        return ["Cond", _py_expr(n.test), _py_expr(n.body), _py_expr(n.orelse)]
    if isinstance(n, pyast.Call):
        f = n.func
        if isinstance(f, pyast.Attribute):
            parts = []
            while isinstance(f, pyast.Attribute):
                parts.insert(0, f.attr)
                f = f.value
            parts.insert(0, f.id if isinstance(f, pyast.Name) else "?")
            name = ".".join(parts)
        elif isinstance(f, pyast.Name):
            name = f.id
        else:
            raise ParseFailure("call target")
        if n.keywords:
            raise ParseFailure("keyword arguments in expression call")
        return ["Math", name, [_py_expr(a) for a in n.args]]
    raise ParseFailure(f"Python expression node {type(n).__name__}")


def _py_literal_list(n, out):
    if isinstance(n, (pyast.List, pyast.Tuple)):
        for e in n.elts:
            _py_literal_list(e, out)
    else:
        e = _py_expr(n)
        v = _real_lit(e)
        if v is None and e[0] == "LitI":
            v = float(e[1])
        if v is None and e[0] == "Neg" and e[1][0] == "LitI":
            v = -float(e[1][1])
        if v is None:
            raise ParseFailure("non-literal array initialiser")
        out.append(v)
    return out


def _py_dtype_kw(call):
    for kw in call.keywords:
        if kw.arg == "dtype":
            v = kw.value
            if isinstance(v, pyast.Attribute):
                return v.attr
    return None


def _py_stmts(body):
    out = []
    for n in body:
        if isinstance(n, pyast.AugAssign):
            if not isinstance(n.op, pyast.Add):
                raise ParseFailure("augmented assignment operator")
            out.append(["AssignAdd", _py_expr(n.target), _py_expr(n.value)])
        elif isinstance(n, pyast.Assign):
            if len(n.targets) != 1:
                raise ParseFailure("multiple targets")
            tgt = n.targets[0]
            v = n.value
            if isinstance(v, pyast.Call) and isinstance(v.func, pyast.Attribute) and isinstance(v.func.value, pyast.Name) \
                    and v.func.value.id == "np" and v.func.attr in ("empty", "full", "array", "zeros") and isinstance(tgt, pyast.Name):
                kind = v.func.attr
                dt = _py_dtype_kw(v)
                if kind == "array":
                    flat = _py_literal_list(v.args[0], [])
                    sizes = _py_shape(v.args[0])
                    out.append(["ArrDecl", tgt.id, dt, sizes, flat, None])
                else:
                    sizes = [int(e.value) for e in v.args[0].elts] if isinstance(v.args[0], pyast.Tuple) else [int(v.args[0].value)]
                    flat = None
                    if kind == "full":
                        flat = _py_literal_list(v.args[1], [])
                    elif kind == "zeros":
                        flat = [0.0]
                    out.append(["ArrDecl", tgt.id, dt, sizes, flat, None])
            else:
                out.append(["Assign", _py_expr(tgt), _py_expr(v)])
        elif isinstance(n, pyast.For):
            it = n.iter
            if not (isinstance(it, pyast.Call) and isinstance(it.func, pyast.Name) and it.func.id == "range" and len(it.args) == 2):
                raise ParseFailure("for-iterator is not range(begin, end)")
            if not isinstance(n.target, pyast.Name) or n.orelse:
                raise ParseFailure("for-target")
            out.append(["For", n.target.id, _py_expr(it.args[0]), _py_expr(it.args[1]), _py_stmts(n.body)])
        elif isinstance(n, pyast.Pass):
            pass
        else:
            raise ParseFailure(f"Python statement node {type(n).__name__}")
    return out


def _py_shape(n):
    shape = []
    while isinstance(n, (pyast.List, pyast.Tuple)):
        shape.append(len(n.elts))
        n = n.elts[0] if n.elts else None
    return shape


def parse_py_statements(text):
    try:
        mod = pyast.parse(text)
    except SyntaxError as e:
        raise ParseFailure(f"Python syntax error: {e}") from e
    return _py_stmts(mod.body)


def parse_py_expression(text):
    try:
        mod = pyast.parse("vf__r = " + text.strip() + "\n")
    except SyntaxError as e:
        raise ParseFailure(f"Python syntax error: {e}") from e
    st = _py_stmts(mod.body)
    if len(st) != 1 or st[0][0] != "Assign" or st[0][1] != ["Sym", "vf__r"]:
        raise ParseFailure("expression did not parse as a single assignment right-hand side")
    return st[0][2]
