"""Property-based verification machinery for FEniCS/ffcx (see /verif/DESIGN.md)."""
