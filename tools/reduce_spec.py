#!/usr/bin/env python3
"""Greedy structural reducer for a failing form spec (developer tool, not a check).

usage: reduce_spec.py <replay.json> [scalar_type]   -> prints the reduced spec and its UFL source
A candidate replaces a subtree by one of its children (or a literal); it is kept when the differential check still reports a
violation.  Ill-typed candidates fail to build and are discarded.
"""
import copy
import json
import sys

sys.path.insert(0, "/verif")
from vf import formcheck, specs  # noqa: E402
from vf.common import scratch  # noqa: E402


def paths(t, p=()):
    if isinstance(t, list) and t and isinstance(t[0], str):
        yield p
        for i, a in enumerate(t[1:], 1):
            if isinstance(a, list):
                if a and isinstance(a[0], str):
                    yield from paths(a, p + (i,))
                else:  # list of trees (as_vector / as_matrix rows)
                    for j, b in enumerate(a):
                        if isinstance(b, list) and b and isinstance(b[0], str):
                            yield from paths(b, p + (i, j))
                        elif isinstance(b, list):
                            for k, c in enumerate(b):
                                if isinstance(c, list) and c and isinstance(c[0], str):
                                    yield from paths(c, p + (i, j, k))


def get(t, p):
    for i in p:
        t = t[i]
    return t


def put(t, p, v):
    if not p:
        return v
    t = copy.deepcopy(t)
    x = t
    for i in p[:-1]:
        x = x[i]
    x[p[-1]] = v
    return t


def children(t):
    out = []
    for a in t[1:]:
        if isinstance(a, list) and a and isinstance(a[0], str):
            out.append(a)
    return out


def main():
    doc = json.load(open(sys.argv[1]))
    rp = doc["replay"]
    spec = rp["spec"]
    st = sys.argv[2] if len(sys.argv) > 2 else rp.get("scalar_type", "float64")
    itypes = (rp.get("itype", "cell"),)
    n = [0]

    def bad(s):
        n[0] += 1
        with scratch("vf-red-") as wd:
            try:
                o = formcheck.evaluate_form_spec(s, wd, itypes=itypes, scalar_type=st, options=rp.get("options"))
            except Exception:
                return False
        return o.status == "violation"

    assert bad(spec), "not failing"
    changed = True
    while changed:
        changed = False
        # drop integrals
        for k in range(len(spec["integrals"])):
            if len(spec["integrals"]) > 1:
                s = copy.deepcopy(spec)
                del s["integrals"][k]
                if bad(s):
                    spec = s
                    changed = True
                    break
        if changed:
            continue
        for k, I in enumerate(spec["integrals"]):
            for p in sorted(paths(I["e"]), key=len):
                sub = get(I["e"], p)
                for cand in children(sub) + [["lit", 1.0]]:
                    if cand == sub:
                        continue
                    s = copy.deepcopy(spec)
                    s["integrals"][k]["e"] = put(I["e"], p, cand)
                    if bad(s):
                        spec = s
                        changed = True
                        break
                if changed:
                    break
            if changed:
                break
        if changed:
            continue
        for key, val in (("cdeg", 1), ("transform", None), ("order", None)):
            if spec.get(key) not in (val, None):
                s = copy.deepcopy(spec)
                if val is None:
                    s.pop(key, None)
                else:
                    s[key] = val
                if bad(s):
                    spec = s
                    changed = True
    print("evaluations", n[0])
    print(json.dumps(spec))
    print(specs.to_source(spec))


main()
