#!/usr/bin/env python3
"""Import and verify seeded property-breaking changes (written by independent sub-agents).

  tools_seed.py import  <Cxx> <variant> <src_dir>      copy patch.diff/demo.py/agent meta into seeded/<Cxx><variant>/
  tools_seed.py verify  <seed_id> [--suite] [--checks C01,C05]
        in a scratch worktree of /repo HEAD: demo passes without the patch, fails with it,
        (optionally) the repository's suite still passes with it, and the listed quick checks are run
        against the patched tree (PYTHONPATH/VF_REPO point at the worktree; evidence goes to scratch).
Results are merged into seeded/<seed_id>/meta.json.  The worktree is removed afterwards.
"""
import json
import os
import re
import shutil
import subprocess
import sys
import tempfile
import time
from pathlib import Path

VERIF = Path(__file__).resolve().parent
PY = "/venv/bin/python"


def sh(cmd, cwd=None, env=None, timeout=3600):
    r = subprocess.run(cmd, cwd=cwd, env=env, capture_output=True, text=True, timeout=timeout)
    out = "\n".join(l for l in (r.stdout + r.stderr).split("\n") if "conda" not in l)
    return r.returncode, out


def do_import(prop, variant, src):
    sid = f"{prop}{variant}"
    dst = VERIF / "seeded" / sid
    dst.mkdir(parents=True, exist_ok=True)
    shutil.copy(Path(src) / "patch.diff", dst / "patch.diff")
    shutil.copy(Path(src) / "demo.py", dst / "demo.py")
    agent = {}
    try:
        agent = json.loads((Path(src) / "meta.json").read_text())
    except Exception as e:  # noqa
        agent = {"error": f"agent meta.json unreadable: {e}"}
    meta = {"seed_id": sid, "property": prop, "summary": agent.get("summary"), "needs": agent.get("needs"),
            "files": agent.get("files"), "agent_verified": agent.get("verified")}
    (dst / "meta.json").write_text(json.dumps(meta, indent=1))
    print("imported", sid)


def do_verify(sid, suite=False, checks=()):
    d = VERIF / "seeded" / sid
    meta = json.loads((d / "meta.json").read_text())
    base = tempfile.mkdtemp(prefix=f"vfseed-{sid}-")
    wt = Path(base) / "wt"
    res = meta.setdefault("confirmed", {})
    try:
        rc, out = sh(["git", "-C", "/repo", "worktree", "add", "-q", "--detach", str(wt), "HEAD"])
        assert rc == 0, out
        head = sh(["git", "-C", "/repo", "rev-parse", "--short", "HEAD"])[1].strip()
        res["repo_head"] = head
        env = dict(os.environ, PYTHONPATH=str(wt), PYTHONHASHSEED="0")
        run_dir = Path(base) / "run"
        run_dir.mkdir()
        rc0, out0 = sh([PY, str(d / "demo.py")], cwd=str(run_dir), env=env, timeout=1800)
        res["demo_without_patch"] = {"exit": rc0, "tail": out0[-300:]}
        rc, out = sh(["git", "apply", str(d / "patch.diff")], cwd=str(wt))
        if rc != 0:
            rc, out = sh(["git", "apply", "-3", str(d / "patch.diff")], cwd=str(wt))
        res["patch_applies"] = rc == 0
        if rc != 0:
            res["patch_error"] = out[-400:]
            return
        rc1, out1 = sh([PY, str(d / "demo.py")], cwd=str(run_dir), env=env, timeout=1800)
        res["demo_with_patch"] = {"exit": rc1, "tail": out1[-500:]}
        if suite:
            t0 = time.time()
            rc, out = sh([PY, "-m", "pytest", "-q", "-p", "no:cacheprovider", "-n", "4", "--timeout=900", "test/"], cwd=str(wt), env=env, timeout=3000)
            m = re.findall(r"=+ (.*) in [0-9.]+s", out)
            failed = re.findall(r"^FAILED (\S+)", out, re.M)
            res["suite_with_patch"] = {"summary": m[-1] if m else out[-200:], "failed": failed, "wall_s": round(time.time() - t0)}
        for c in checks:
            ev = Path(base) / "ev" / c
            env2 = dict(env, VF_REPO=str(wt), VF_EVIDENCE_DIR=str(ev), VF_REPLAY_DIR=str(ev / "replays"), VERIF_SEED=os.environ.get("VERIF_SEED", "1"))
            t0 = time.time()
            rc, out = sh([PY, "-m", "vf", "check", c, "--tier", os.environ.get("SEED_TIER", "quick")], cwd=str(VERIF), env=env2, timeout=7200)
            viol = [l for l in out.split("\n") if l.startswith("VIOLATION") or l.startswith("  what:")]
            res.setdefault("checks", {})[c] = {"exit": rc, "wall_s": round(time.time() - t0), "lines": [v[:400] for v in viol[:6]],
                                               "tail": out[-300:] if rc not in (0, 1) else ""}
            print(sid, c, "exit", rc)
    finally:
        sh(["git", "-C", "/repo", "worktree", "remove", "--force", str(wt)])
        shutil.rmtree(base, ignore_errors=True)
        (d / "meta.json").write_text(json.dumps(meta, indent=1))
    print(json.dumps(res, indent=1)[:3000])


def do_report():
    """Markdown table of all seeded changes and what caught them; written into DESIGN.md between the SENSITIVITY markers."""
    rows = []
    for d in sorted((VERIF / "seeded").iterdir()):
        mp = d / "meta.json"
        if not mp.exists():
            continue
        m = json.loads(mp.read_text())
        c = m.get("confirmed", {})
        files = ", ".join(Path(f).name for f in (m.get("files") or []))
        summ = re.sub(r"\s+", " ", (m.get("summary") or ""))[:150].replace("|", "/")
        needs = re.sub(r"\s+", " ", (m.get("needs") or ""))[:170].replace("|", "/")
        if m.get("status"):
            verdict = "not counted: " + m["status"][:110]
        else:
            parts = []
            for k, v in (c.get("checks") or {}).items():
                parts.append(f"{k} quick: {'**caught**' if v.get('exit') == 1 else ('harness error' if v.get('exit') == 2 else '**missed**')} ({v.get('wall_s')} s)")
            verdict = "; ".join(parts) or "not yet run"
            if m.get("note"):
                verdict += " - " + m["note"]
        ok = c.get("demo_without_patch", {}).get("exit") == 0 and c.get("demo_with_patch", {}).get("exit") not in (0, None)
        suite = ((c.get("suite_with_patch") or {}).get("summary") or "not run")
        rows.append(f"| {m['seed_id']} | {files} | {summ} | {needs} | demo {'ok/fails' if ok else 'NOT CONFIRMED'}; suite {suite} | {verdict} |")
    table = ("| seed | file(s) | change | needs | confirmed (demo without/with patch; repository suite with patch) | result against the quick tier |\n"
             "|---|---|---|---|---|---|\n" + "\n".join(rows))
    dp = VERIF / "DESIGN.md"
    text = dp.read_text()
    b, e = "<!-- SENSITIVITY:BEGIN -->", "<!-- SENSITIVITY:END -->"
    if b in text and e in text:
        text = text[: text.index(b) + len(b)] + "\n" + table + "\n" + text[text.index(e):]
        dp.write_text(text)
        print("DESIGN.md updated,", len(rows), "rows")
    else:
        print(table)


if __name__ == "__main__":
    if sys.argv[1] == "report":
        do_report()
    elif sys.argv[1] == "import":
        do_import(sys.argv[2], sys.argv[3], sys.argv[4])
    elif sys.argv[1] == "verify":
        sid = sys.argv[2]
        suite = "--suite" in sys.argv
        checks = []
        if "--checks" in sys.argv:
            checks = sys.argv[sys.argv.index("--checks") + 1].split(",")
        do_verify(sid, suite, checks)
