#!/bin/bash
# Developer helper: run every registered quick (or thorough) check in /verif sequentially and summarise.
# usage: tools_runall.sh [quick|thorough] [C01 C02 ...]
tier=${1:-quick}; shift
checks=${@:-C01 C02 C03 C04 C05 C06 C07 C08 C09 C10 C11 C12 C13 C14 C15 C16 C17 C18 C19 C20}
cd "$(dirname "$0")"
mkdir -p /tmp/vf-runall
for c in $checks; do
  s=$(date +%s)
  /venv/bin/python -m vf check $c --tier $tier > /tmp/vf-runall/$c.$tier.log 2>&1
  rc=$?
  echo "$c $tier exit=$rc wall=$(( $(date +%s) - s ))s $(grep -c '^VIOLATION' /tmp/vf-runall/$c.$tier.log) violation(s) $(grep -c '^KNOWN-FINDING' /tmp/vf-runall/$c.$tier.log) known"
done
